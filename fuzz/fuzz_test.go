//go:build verif

// Package fuzz is the auxiliary coverage-guided stage of C04 (thorough tier).
// Go's native fuzzer cannot be seeded, so it never decides "held": whatever it
// finds is written to testdata/fuzz/FuzzExpr/ and re-judged deterministically
// by the "fuzz-corpus" phase of the C04 check.
package fuzz

import (
	"testing"

	"verif/checks"
)

func FuzzExpr(f *testing.F) {
	for i, s := range checks.C04FuzzSeeds() {
		f.Add(s, uint64(i))
	}
	f.Fuzz(func(t *testing.T, src string, sel uint64) {
		if len(src) > 65536 {
			return
		}
		if sigs := checks.C04Probe(src, sel); len(sigs) > 0 {
			t.Fatalf("C04 violated: %v", sigs)
		}
	})
}
