import sys,json
pid=sys.argv[1]
prop=open('/tmp/mut/%s.prop.txt'%pid).read()
d=json.load(open('/verif/known_findings.json'))
known=[f['what'] for f in d['findings'] if f['property']==pid]
knowntxt='\n'.join('- '+k[:400] for k in known) or '- (none so far)'
print(f"""You are helping test the Go library antonmedv/expr (an expression language: lexer, Pratt parser, reflect-based type checker, AST optimizer, bytecode compiler, stack VM). A git worktree of the library is at /tmp/mut/H{pid} (work ONLY there; never touch /repo or /verif, and do not read anything under /verif).

Property the library is supposed to satisfy:

{prop}

Your task: find behaviours of the library AS IT IS (do not change any non-test file) that VIOLATE this property: concrete inputs (expression source, options, environment type and value, sequence of calls) for which the library demonstrably does something the property forbids. Read the code paths named in the property's anchors and think about unusual but legal inputs: unusual Go types in the environment (named types, pointers, arrays, embedded structs, interfaces, maps with odd key types, func fields), boundary values, rarely combined options, deep or odd nestings, unusual whitespace or Unicode, multi-step sequences. Be adversarial but fair: the input must be something a user can legitimately write, and the violation must follow from the property's own words (when in doubt whether the documented language definition in docs/Language-Definition.md leaves a behaviour open, say so).

The following violations are ALREADY KNOWN (found, and either repaired in this tree or recorded); do not report these or trivial variants of them:
{knowntxt}

Environment rules (no network): prefix every go command with
  export GOFLAGS=-mod=mod GOPROXY=off GOSUMDB=off GOTOOLCHAIN=local
NEVER use `git stash`.

For each finding k (aim for up to 5 distinct ones, quality over quantity; 0 is an acceptable answer if you find none after a serious search): write a test function TestFinding{{k}} in the single file /tmp/mut/H{pid}/findings_test.go (package expr_test, at the repository root) that FAILS on the current code exactly when the violation is present (i.e. it asserts what the property demands), with a comment explaining the input and why the property forbids the observed behaviour. Run it and confirm it fails for the stated reason (not because of a mistake in the test). Finally copy the file to /tmp/mut/H{pid}.findings_test.go.

Keep your intermediate messages short. In your final message list each finding in 2-4 lines: the input, what happens, what the property demands, and how sure you are that it is a genuine violation rather than unspecified behaviour. Keep the final message under 450 words.""")
