// probe demonstrates, against the real library, each defect that a fix: commit
// repairs or that known_findings.json records. Run: go run -tags verif ./notes/probe
package main

import (
	"fmt"
	"strings"

	"github.com/antonmedv/expr"
	"github.com/antonmedv/expr/ast"
	"github.com/antonmedv/expr/parser"
	"github.com/antonmedv/expr/vm"
)

type Inner struct{ Dup, OnlyInner int }
type Emb struct {
	Dup int
	Inner
	priv int
}
type Env struct {
	A    int
	F    float64
	S    string
	Any  interface{}
	Arr  []int
	StrFn func(string) string
	IntFn func(int) int
	FloatFn func(float64) float64
	U8Fn func(uint8) int
	Add  func(a, b []int) []int
	Emb
	NilF func()
}

func try(name string, f func() string) {
	defer func() {
		if r := recover(); r != nil {
			fmt.Printf("%-28s PANIC %v\n", name, r)
		}
	}()
	fmt.Printf("%-28s %s\n", name, f())
}

func ev(src string, env interface{}, opts ...expr.Option) string {
	p, err := expr.Compile(src, opts...)
	if err != nil {
		return "compile error: " + strings.Split(err.Error(), "\n")[0]
	}
	v, err := expr.Run(p, env)
	if err != nil {
		return "run error: " + strings.Split(err.Error(), "\n")[0]
	}
	return fmt.Sprintf("%T %v", v, v)
}

type cnt struct{ n int }

func (c *cnt) Enter(*ast.Node) {}
func (c *cnt) Exit(n *ast.Node) {
	if _, ok := (*n).(*ast.IdentifierNode); ok {
		c.n++
	}
}

func main() {
	env := Env{A: 3, F: 1.5, S: "x", Any: 2.5, Arr: []int{1, 2, 3, 4}}
	env.StrFn = func(s string) string { return s }
	env.IntFn = func(i int) int { return i }
	env.FloatFn = func(f float64) float64 { return f }
	env.U8Fn = func(u uint8) int { return int(u) }
	env.Add = func(a, b []int) []int { return append(append([]int{}, a...), b...) }
	E := expr.Env(Env{})

	try("C07 reuse", func() string {
		vm.MemoryBudget = 100
		defer func() { vm.MemoryBudget = 1000000 }()
		p, _ := expr.Compile("len(1..A)", E, expr.Optimize(false))
		m := vm.VM{}
		e := env
		e.A = 10
		for i := 1; i <= 20; i++ {
			if _, err := m.Run(p, e); err != nil {
				return fmt.Sprintf("run %d on a reused VM fails: %v", i, strings.Split(err.Error(), "\n")[0])
			}
		}
		return "20 runs ok"
	})
	try("C10 walk slice operand", func() string {
		t, _ := parser.Parse("x[a:b]")
		c := &cnt{}
		ast.Walk(&t.Node, c)
		return fmt.Sprintf("identifiers visited in x[a:b]: %d (want 3)", c.n)
	})
	try("C17 overload under slice", func() string {
		return ev("(Arr + Arr)[1:3]", env, E, expr.Operator("+", "Add"))
	})
	try("C05 64KiB branch", func() string {
		var sb strings.Builder
		sb.WriteString("A > 100 ? (0")
		for i := 0; i < 17000; i++ {
			fmt.Fprintf(&sb, " + A")
		}
		sb.WriteString(") : 7")
		return ev(sb.String(), env, E, expr.Optimize(false))
	})
	try("C04 nil AsBool", func() string { return ev("nil", nil, expr.AsBool()) })
	try("C04 ConstExpr missing", func() string { return ev("1", env, E, expr.ConstExpr("Missing")) })
	try("C04 Operator nil-typed", func() string {
		return ev("1", nil, expr.Env(map[string]interface{}{"f": nil}), expr.Operator("+", "f"))
	})
	try("C04 Operator ambiguous", func() string { return ev("1", env, E, expr.Operator("+", "Dup")) })
	try("C03 StrFn(1)", func() string { return ev("StrFn(1)", env, E) })
	try("C03 IntFn(F+F)", func() string { return ev("IntFn(F+F)", env, E) })
	try("C03 IntFn(S+S)", func() string { return ev("IntFn(S+S)", env, E) })
	try("C02 FloatFn(1/2) opt", func() string { return ev("FloatFn(1/2)", env, E) })
	try("C02 FloatFn(1/2) noopt", func() string { return ev("FloatFn(1/2)", env, E, expr.Optimize(false)) })
	try("C02 U8Fn(300/2) opt", func() string { return ev("U8Fn(300/2)", env, E) })
	try("C02 U8Fn(300/2) noopt", func() string { return ev("U8Fn(300/2)", env, E, expr.Optimize(false)) })
	try("C12 hex 0x1e", func() string { return ev("0x1e", nil) })
	try("C12 hex 0xE", func() string { return ev("0xE", nil) })
	try("C11 not<tab>in", func() string { return ev("A not\tin [1]", env, E) })
	try("C11 not in<nl>[", func() string { return ev("A not in\n[1]", env, E) })
	try("C13 bad number position", func() string { return ev("1 + 99999999999999999999 + A", env, E) })
	try("C16 unexported accepted", func() string { return ev("priv", env, E) })
	try("C16 outer before embedded", func() string { return ev("Dup", env, E) })
	try("C16 OnlyInner", func() string { return ev("OnlyInner", env, E) })
}
