// vcheck dispatches the property checks.
//
//	vcheck run <ID> [--tier quick|thorough] [--seed N]
//	vcheck replay <ID> <file>
//	vcheck worker <ID> ...            (internal)
package main

import (
	"flag"
	"fmt"
	"os"
	"strconv"

	_ "verif/checks"
	"verif/internal/runner"
)

func main() {
	if len(os.Args) < 3 {
		fmt.Println("usage: vcheck run|replay|worker <ID> ...; ids:", runner.IDs())
		os.Exit(2)
	}
	mode, id := os.Args[1], os.Args[2]
	ck := runner.Lookup(id)
	if ck == nil {
		fmt.Println("unknown check", id, "known:", runner.IDs())
		os.Exit(2)
	}
	fs := flag.NewFlagSet(mode, flag.ExitOnError)
	tier := fs.String("tier", envOr("VERIF_TIER", "quick"), "quick|thorough")
	seedDef, _ := strconv.ParseUint(envOr("VERIF_SEED", "1"), 10, 64)
	seed := fs.Uint64("seed", seedDef, "seed")
	shard := fs.Int("shard", 0, "")
	shards := fs.Int("shards", 1, "")
	fromPhase := fs.Int("from-phase", 0, "")
	fromIdx := fs.Uint64("from-idx", 0, "")
	switch mode {
	case "run":
		fs.Parse(os.Args[3:])
		if *tier != "quick" && *tier != "thorough" {
			fmt.Println("bad tier", *tier)
			os.Exit(2)
		}
		self, _ := os.Executable()
		os.Exit(runner.RunParent(ck, *tier, *seed, self))
	case "worker":
		fs.Parse(os.Args[3:])
		os.Exit(runner.RunWorker(ck, *tier, *seed, *shard, *shards, *fromPhase, *fromIdx))
	case "single":
		fs.Parse(os.Args[3:])
		os.Exit(runner.RunSingle(ck, *tier, *seed, *fromPhase, *fromIdx))
	case "replay":
		if len(os.Args) < 4 {
			fmt.Println("usage: vcheck replay <ID> <file>")
			os.Exit(2)
		}
		os.Exit(runner.RunReplay(ck, os.Args[3]))
	default:
		fmt.Println("unknown mode", mode)
		os.Exit(2)
	}
}

func envOr(k, d string) string {
	if v := os.Getenv(k); v != "" {
		return v
	}
	return d
}
