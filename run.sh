#!/bin/bash
# run.sh <ID> <quick|thorough>            run one property check
# run.sh <ID> --replay <file>             re-execute one recorded case
# Always rebuilds the harness against /repo's current working tree (tag verif).
set -u
cd "$(dirname "$0")"
export GOFLAGS=-mod=mod GOPROXY=off GOSUMDB=off GOTOOLCHAIN=local
# output (evidence, replays, .work) and the known-findings file live next to this script
export VERIF_HOME="${VERIF_HOME:-$PWD}"
export VERIF_ROOT="${VERIF_ROOT:-$PWD}"
ID="$1"; shift
RACE=""
BIN=bin/vcheck
case "$ID" in
  C08) RACE="-race"; BIN=bin/vcheck-race ;;
esac
if [ -n "${VERIF_RACE:-}" ]; then RACE="-race"; BIN=bin/vcheck-race; fi
MODFLAG=""
if [ -n "${VERIF_REPO:-}" ]; then
  mkdir -p .work
  MF=".work/go.$$.mod"
  sed "s#=> /repo#=> ${VERIF_REPO}#" go.mod > "$MF"
  cp go.sum ".work/go.$$.sum"
  MODFLAG="-modfile=$MF"
  BIN="$BIN.$$"
  trap 'rm -f "$MF" ".work/go.$$.sum" "$BIN"' EXIT
fi
mkdir -p bin
if ! go build $MODFLAG $RACE -tags verif -o "$BIN" ./cmd/vcheck > ".work.build.$$.log" 2>&1; then
  cat ".work.build.$$.log"; rm -f ".work.build.$$.log"
  echo "INCONCLUSIVE property=$ID harness does not build against the current tree"
  exit 2
fi
rm -f ".work.build.$$.log"
if [ "${1:-}" = "--replay" ]; then
  exec "$BIN" replay "$ID" "$2"
fi
TIER="${1:-${VERIF_TIER:-quick}}"
if [ "$ID" = "C04" ] && [ "$TIER" = "thorough" ] && [ -z "${VERIF_NO_FUZZ:-}" ]; then
  # auxiliary stage: Go's native coverage-guided fuzzer over the C04 oracle.
  # Crashers land in fuzz/testdata/fuzz/FuzzExpr and are re-judged
  # deterministically by the check's "fuzz-corpus" phase below.
  FLOG=".work.fuzz.$$.log"
  touch "$FLOG.start"
  go test $MODFLAG -tags verif -run '^$' -fuzz '^FuzzExpr$' -fuzztime "${VERIF_FUZZ_EXECS_TARGET:-3000000}x" ./fuzz > "$FLOG" 2>&1
  export VERIF_FUZZ_EXECS=$(grep -o 'execs: [0-9]*' "$FLOG" | tail -1 | grep -o '[0-9]*')
  grep -E "^(--- FAIL|FAIL|ok|PASS)|Failing input" "$FLOG" | head -5
  if [ -n "${VERIF_REPO:-}" ] && [ -d fuzz/testdata/fuzz/FuzzExpr ]; then
    # findings against a scratch copy do not belong to /verif
    mkdir -p "$VERIF_ROOT/fuzz-crashers"
    find fuzz/testdata/fuzz/FuzzExpr -type f -newer "$FLOG.start" -exec mv {} "$VERIF_ROOT/fuzz-crashers/" \; 2>/dev/null
  fi
  rm -f "$FLOG" "$FLOG.start"
fi
"$BIN" run "$ID" --tier "$TIER"
exit $?
