#!/bin/bash
# run.sh <ID> <quick|thorough>            run one property check
# run.sh <ID> --replay <file>             re-execute one recorded case
# Always rebuilds the harness against /repo's current working tree (tag verif).
set -u
cd "$(dirname "$0")"
export GOFLAGS=-mod=mod GOPROXY=off GOSUMDB=off GOTOOLCHAIN=local
# output (evidence, replays, .work) and the known-findings file live next to this script
export VERIF_HOME="${VERIF_HOME:-$PWD}"
export VERIF_ROOT="${VERIF_ROOT:-$PWD}"
ID="$1"; shift
RACE=""
BIN=bin/vcheck
case "$ID" in
  C08) RACE="-race"; BIN=bin/vcheck-race ;;
esac
if [ -n "${VERIF_RACE:-}" ]; then RACE="-race"; BIN=bin/vcheck-race; fi
MODFLAG=""
if [ -n "${VERIF_REPO:-}" ]; then
  mkdir -p .work
  MF=".work/go.$$.mod"
  sed "s#=> /repo#=> ${VERIF_REPO}#" go.mod > "$MF"
  cp go.sum ".work/go.$$.sum"
  MODFLAG="-modfile=$MF"
  BIN="$BIN.$$"
  trap 'rm -f "$MF" ".work/go.$$.sum" "$BIN"' EXIT
fi
mkdir -p bin
if ! go build $MODFLAG $RACE -tags verif -o "$BIN" ./cmd/vcheck > ".work.build.$$.log" 2>&1; then
  cat ".work.build.$$.log"; rm -f ".work.build.$$.log"
  echo "INCONCLUSIVE property=$ID harness does not build against the current tree"
  exit 2
fi
rm -f ".work.build.$$.log"
if [ "${1:-}" = "--replay" ]; then
  exec "$BIN" replay "$ID" "$2"
fi
TIER="${1:-${VERIF_TIER:-quick}}"
"$BIN" run "$ID" --tier "$TIER"
exit $?
