#!/usr/bin/env python3
# Regenerates /verif/MANIFEST.json from the table below. READY lists the
# properties whose checks are registered; the others are listed under
# not_applicable with the reason.
import json, subprocess, sys

READY = open('/verif/tools/ready.txt').read().split()

META = {
 "C01": ("exploration", "history + executable model (reference evaluator, call-log oracle) over exhaustive small terms and seeded random terms",
   "Runs the real Compile+Run and an independent reference evaluator on identical environments and compares value (numeric kind included), failure and the log of environment calls (each once, left to right, only when needed; injected panics at the k-th call). Exhaustive for terms up to 4/5 nodes over a reduced alphabet, random beyond; decides only the executions produced.",
   "Trusts the harness's reference evaluator (internal/ref, written from docs/Language-Definition.md and Go semantics) and its list of unspecified constructs, which are executed but not judged.", "5/C01"),
 "C02": ("exploration", "differential monitoring of Optimize(true) vs Optimize(false) programs and of ConstExpr on/off",
   "Compiles each source with the optimizer on and off (and with/without ConstExpr) and compares outcomes on the same environment values with the property's own equality; an optimizer-only compile error is accepted only for a constant integer division/modulo by zero found by the harness's own folder.",
   "No reference needed; trusts the value canon and the harness's constant folder; operands drawn from every static type the checker admits.", "5/C02"),
 "C03": ("exploration", "runtime monitoring of type-reason failures and dynamic result types on reference-well-typed terms; single-fault ill-typed mutants must be rejected",
   "For statically typed reference-well-typed terms every run must succeed or fail with a value reason, and the dynamic result type must equal the checker's reported type (exactly bool/int64/float64 under As*); single-fault mutants of the listed classes must be rejected by Compile.",
   "Trusts the reference typing rules (internal/term) and the allow-list classifying error messages as type reasons.", "5/C03"),
 "C04": ("exploration", "crash/hang monitor under recover() and a per-case watchdog over hostile inputs x option subsets x hostile environments",
   "Feeds token soup, mutated grammatical programs, deep nestings and invalid UTF-8 with every option subset (incl. node-replacing Patch visitors, bad Operator/ConstExpr tables) and panicking/nil/wrongly typed environments to Parse/Compile/Eval/Run in child processes; any escaped panic, fatal error or non-terminating case is a violation; error implies nil result, success implies a usable program.",
   "Panics raised by harness-supplied visitors during Compile are the user's; inputs bounded at 64 KiB.", "5/C04"),
 "C05": ("exploration", "artifact monitor (independent bytecode decoder) + invariant monitor on a per-instruction VM hook",
   "Every program compiled by the workloads is decoded by the harness's own decoder (known opcodes, operand kinds, jump targets on boundaries); every executed instruction is checked at the hook for stack depth >= pops, open scope, and the end state (exactly one value, no scope). Includes a byte-by-byte sweep of operand sizes around 2^16 and programs with >65535 constants.",
   "Trusts the instruction-set table restated in internal/mon/bytecode.go; dynamic part covers executed paths only.", "5/C05"),
 "C06": ("exploration", "reference allocation model vs runs under harness-set budgets + conservation invariant on allocation hook events",
   "For each allocating expression and environment the reference evaluator predicts under budget B whether the run completes; the real run must agree (and fail with the budget error), for B in {1,2,3,A-1,A,A+1,2A,default}; every allocation event must account exactly len(created) >= 0 and keep the counter equal to the running sum.",
   "Trusts the reference's element counting; vm.MemoryBudget is process-global so one budget per worker process at a time.", "5/C06"),
 "C07": ("exploration", "differential monitoring of run histories on one VM vs fresh VMs + begin-state invariant at the run-begin hook",
   "Histories of 2-400 runs on one vm.VM (succeeding, allocating, failing inside nested loops, failing at the k-th call) are compared step by step with fresh VMs (value, error text, call log); at every run-begin the hook asserts counter 0, empty stack, no scopes, ip 0.",
   "Fresh VM = vm.Run; vm.Debug() VMs not covered.", "5/C07"),
 "C08": ("exploration", "Go race detector over a concurrent Run/Compile stress workload + comparison with sequential results",
   "Built with -race: N goroutines x M runs over a shared pool of programs with constants of every kind and shared read-only environments, plus concurrent Compile with shared options; zero DATA RACE reports with an expr frame, every concurrent result equal to the sequential one, overlap >= 2 measured by a hook-driven gauge; the step hook yields the scheduler to diversify interleavings.",
   "The race detector sees only executed accesses; harness visitors/functions are race-free by construction.", "5/C08"),
 "C09": ("exploration", "digest comparison of repeated compilations (in-process and across processes) + deep before/after snapshots of environment and program",
   "Program digests (bytecode, typed constants with sorted maps, locations) of repeated compilations must be equal in one process and across worker processes; deep snapshots (incl. spare slice capacity) of env, sample env and program before and after each run must be equal; a second run on an equal env returns an equal result.",
   "Across processes = several processes of one build on one machine.", "5/C09"),
 "C10": ("exploration", "trace-specification monitor on the Enter/Exit stream of ast.Walk vs a reflection-based enumeration of Node fields + patch-effect differentials (identifier, string-literal, operator-introducing and type-changing patches made in Enter or Exit)",
   "For every node kind x child slot x child kind (exhaustive depth 2) and random trees, the Enter/Exit stream must enter/exit every reachable node once, properly nested, children in field order, with the parent's slot address; replacements at every slot must show in the compiled program.",
   "Node kinds defined outside package ast are out of scope.", "5/C10"),
 "C11": ("exploration", "round-trip and differential monitoring of parser.Parse against a reference recursive-descent parser",
   "Tree -> minimal-parentheses text -> Parse must give the same tree; redundant parentheses and whitespace must not change it; token sequences (exhaustive to length 5/6, random beyond) must parse to the reference tree or be rejected when the reference rejects.",
   "Trusts the reference grammar restated in the harness from the documentation and operator table.", "5/C11"),
 "C12": ("exploration", "round-trip monitoring of lexer/parser literals against a spelling generator; token positions against a layout engine",
   "Strings spelled with every supported escape and quote, ints in decimal/underscore/hex spellings, floats in every strconv formatting must come back exactly; each token's (line, column) must be the position of its first rune for arbitrary layouts.",
   "EOF token position and lexer error positions are pinned by the repository tests and not judged.", "5/C12"),
 "C13": ("fault_enumeration", "fault injection with known positions; monitor on every *file.Error",
   "One fault (unknown name, type mismatch, syntax fault, or one failing run-time operation) is injected at a known (line, column) into multi-line, multi-byte sources; the reported location must be exactly that; every error location must lie inside the source and the snippet must be the named line.",
   "Lexer-level error columns are pinned one past the rune by the repository tests; only in-source/snippet checks apply to them.", "5/C13"),
 "C14": ("exploration", "exhaustive kind x kind x operator table against the promotion model (Go conversions by family), boundary grid of values, int/float literal pairs",
   "All 12x12 ordered kind pairs x 13 operators + unary minus, on a boundary grid and random values, typed and untyped compilation: result value and kind must equal the Go result after converting the lower-ranked operand, and the kind the checker reports.",
   "Values are a grid plus samples, not all 2^64 pairs.", "5/C14"),
 "C15": ("exploration", "differential monitoring across compilation modes (Eval, no Env, Env struct/pointer/map, AllowUndefinedVariables) incl. environments over defined types and retyped call arguments",
   "Among the variants that compile and run successfully on an environment value all results must be canon-equal (numeric kind included).", "Variants that fail are not compared (the property says so).", "5/C15"),
 "C16": ("exploration", "model-based monitoring against Go's own resolution (reflect FieldByName/MethodByName) over run-time assembled environment types",
   "Environment types assembled with reflect.StructOf (embedding by value/pointer, shadowing, ambiguity, unexported fields) and handwritten types (methods, maps): accepted names must run and have the reported type; Go-resolvable exported members must be accepted; docgen must list exactly the accepted top-level names.",
   "Members promoted through unexported embedded structs are judged in the accept->run direction only.", "5/C16"),
 "C17": ("exploration", "differential monitoring of operator form vs explicit-call form vs reference evaluation of the explicit form, incl. call logs; bad operator tables must be rejected",
   "The generator resolves each overload itself and prints the explicit-call form; both forms must compile and give equal results and identical call logs on every environment; ill-shaped tables must make Compile fail.",
   "Overload functions have no side effects beyond the log.", "5/C17"),
 "C18": ("exploration", "metamorphic monitoring of the builtin identities over generated arrays and predicates, nested closures",
   "Both sides of each identity are compiled separately and as one expression and must agree (also on failing); filter is checked element-wise against per-element predicate runs; closures at depth d must see their own collection's element.",
   "Identities tie builtins to each other; absolute correctness is C01's job.", "5/C18"),
}

props = [json.loads(l)['id'] for l in open('/verif/properties.jsonl')]
hooks_commits = subprocess.run(['git','-C','/repo','log','--format=%h %s'],capture_output=True,text=True).stdout.splitlines()
hook_shas = [l.split()[0] for l in hooks_commits if l.split(' ',1)[1].startswith('verif:')]
checks=[]; na=[]
for p in props:
    if p in READY:
        lvl, tech, text, note, ref = META[p]
        checks.append({"property_id":p,"quick_cmd":"./run.sh %s quick"%p,"thorough_cmd":"./run.sh %s thorough"%p,
          "evidence_file":"/verif/evidence/%s.json"%p,"replay_cmd_template":"./run.sh %s --replay {path}"%p,"engine":"vcheck",
          "level_claimed":{"category":lvl,"text":text,"design_ref":"DESIGN.md section "+ref},"level_note":note,"technique":tech})
    else:
        na.append({"property_id":p,"reason":"check under construction in this round; not yet registered"})
m={"version":1,"setup_cmd":"./setup.sh",
 "hooks":{"guard":"verif","enable":"go build -tags verif (run.sh rebuilds bin/vcheck against /repo's working tree through `replace github.com/antonmedv/expr => /repo`)",
   "baseline_off_cmd":"cd /repo && GOFLAGS=-mod=mod GOPROXY=off GOSUMDB=off GOTOOLCHAIN=local go test -vet=off -count=1 ./...",
   "source_commits":hook_shas,"add_only":True},
 "engines":[{"name":"vcheck","path":"/verif/cmd/vcheck","serves_properties":READY,"kind_free_text":"Go harness: deterministic sharded case lists run in child processes against the real library (tag verif hooks), monitors and oracles in internal/mon, internal/ref; -race build for C08"}],
 "checks":checks,
 "notes":"Runtime monitoring only: every verdict is 'held on the executions produced'. Exit 0 held, 1 violation (VIOLATION line), 2 inconclusive (INCONCLUSIVE line). known_findings.json lists open findings (printed as KNOWN-FINDING) and fixed ones.",
 "not_applicable":na}
json.dump(m,open('/verif/MANIFEST.json','w'),indent=1)
print("checks:",[c['property_id'] for c in checks])
