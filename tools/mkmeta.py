#!/usr/bin/env python3
# mkmeta.py  <id> <round> <change> <breaks> <needs> <caught_by> <sig> [check]
import json,sys
k,rnd,change,breaks,needs,caught,sig=sys.argv[1:8]
prop=k.split('-')[0]
check=sys.argv[8] if len(sys.argv)>8 else prop
meta={"id":k,"property":prop,"round":int(rnd),"source":"independent sub-agent given only the property text and a scratch git worktree of /repo",
  "change":change,"what_breaks":breaks,"needs_to_manifest":needs,
  "confirmed":{"how":"seeded/confirm.sh %s"%k,"demo_without_change":"pass","repository_suite_with_change":"pass","demo_with_change":"FAIL"},
  "detection":{"caught_by":caught,"check":check,"tier":"quick","command":"./mutants/mutate.sh seeded/%s/patch.diff %s quick"%(k,check),"first_witness_signature":sig}}
json.dump(meta,open('/verif/seeded/'+k+'/meta.json','w'),indent=1,ensure_ascii=False)
