#!/bin/bash
# runall.sh <tier> [seed]  runs every registered check and prints one line each
cd /verif
TIER="${1:-quick}"; export VERIF_SEED="${2:-1}"
for id in $(cat tools/ready.txt); do
  out=$(./run.sh $id $TIER 2>&1); rc=$?
  echo "$(echo "$out" | tail -1) rc=$rc"
  if [ $rc -ne 0 ]; then echo "$out" | grep -E "witness|INCONCLUSIVE" | head -5 | cut -c1-300; fi
done
