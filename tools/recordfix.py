#!/usr/bin/env python3
# recordfix.py <property> <commit> <what failed>  appends a fixed entry
import json,sys
prop,commit,what=sys.argv[1],sys.argv[2],sys.argv[3]
p='/verif/known_findings.json'
d=json.load(open(p))
line="fixed: property=%s %s %s"%(prop,commit,what)
if line not in d['fixed']:
    d['fixed'].append(line)
if not any(f.get('commit')==commit for f in d['findings']):
    d['findings'].append({'property':prop,'id':'fixed-%s-%s'%(prop,commit),'status':'fixed','sig':'','what':what,'commit':commit})
json.dump(d,open(p,'w'),indent=1,ensure_ascii=False)
