package mon

import (
	"fmt"
	"regexp"
	"verif/internal/runner"

	"github.com/antonmedv/expr/vm"
)

// The harness's own statement of the instruction set: operand width, operand
// kind and the number of values an instruction needs on the stack. Opcode
// numbers are taken from the library (renumbering is not a defect); everything
// else is restated here.

type operandKind int

const (
	opdNone operandKind = iota
	opdConstAny
	opdConstString
	opdConstCall
	opdConstRegexp
	opdJumpFwd
	opdJumpBack
	opdCast
)

type opInfo struct {
	name   string
	opd    operandKind
	pops   int  // values required on the stack (-1 = dynamic)
	scope  bool // needs an open scope
	pushes int  // net values left instead of the popped ones (informational)
}

var opTable = map[byte]opInfo{
	vm.OpPush:            {"OpPush", opdConstAny, 0, false, 1},
	vm.OpPop:             {"OpPop", opdNone, 1, false, 0},
	vm.OpRot:             {"OpRot", opdNone, 2, false, 2},
	vm.OpFetch:           {"OpFetch", opdConstAny, 0, false, 1},
	vm.OpFetchNilSafe:    {"OpFetchNilSafe", opdConstAny, 0, false, 1},
	vm.OpFetchMap:        {"OpFetchMap", opdConstString, 0, false, 1},
	vm.OpTrue:            {"OpTrue", opdNone, 0, false, 1},
	vm.OpFalse:           {"OpFalse", opdNone, 0, false, 1},
	vm.OpNil:             {"OpNil", opdNone, 0, false, 1},
	vm.OpNegate:          {"OpNegate", opdNone, 1, false, 1},
	vm.OpNot:             {"OpNot", opdNone, 1, false, 1},
	vm.OpEqual:           {"OpEqual", opdNone, 2, false, 1},
	vm.OpEqualInt:        {"OpEqualInt", opdNone, 2, false, 1},
	vm.OpEqualString:     {"OpEqualString", opdNone, 2, false, 1},
	vm.OpJump:            {"OpJump", opdJumpFwd, 0, false, 0},
	vm.OpJumpIfTrue:      {"OpJumpIfTrue", opdJumpFwd, 1, false, 1},
	vm.OpJumpIfFalse:     {"OpJumpIfFalse", opdJumpFwd, 1, false, 1},
	vm.OpJumpBackward:    {"OpJumpBackward", opdJumpBack, 0, false, 0},
	vm.OpIn:              {"OpIn", opdNone, 2, false, 1},
	vm.OpLess:            {"OpLess", opdNone, 2, false, 1},
	vm.OpMore:            {"OpMore", opdNone, 2, false, 1},
	vm.OpLessOrEqual:     {"OpLessOrEqual", opdNone, 2, false, 1},
	vm.OpMoreOrEqual:     {"OpMoreOrEqual", opdNone, 2, false, 1},
	vm.OpAdd:             {"OpAdd", opdNone, 2, false, 1},
	vm.OpSubtract:        {"OpSubtract", opdNone, 2, false, 1},
	vm.OpMultiply:        {"OpMultiply", opdNone, 2, false, 1},
	vm.OpDivide:          {"OpDivide", opdNone, 2, false, 1},
	vm.OpModulo:          {"OpModulo", opdNone, 2, false, 1},
	vm.OpExponent:        {"OpExponent", opdNone, 2, false, 1},
	vm.OpRange:           {"OpRange", opdNone, 2, false, 1},
	vm.OpMatches:         {"OpMatches", opdNone, 2, false, 1},
	vm.OpMatchesConst:    {"OpMatchesConst", opdConstRegexp, 1, false, 1},
	vm.OpContains:        {"OpContains", opdNone, 2, false, 1},
	vm.OpStartsWith:      {"OpStartsWith", opdNone, 2, false, 1},
	vm.OpEndsWith:        {"OpEndsWith", opdNone, 2, false, 1},
	vm.OpIndex:           {"OpIndex", opdNone, 2, false, 1},
	vm.OpSlice:           {"OpSlice", opdNone, 3, false, 1},
	vm.OpProperty:        {"OpProperty", opdConstString, 1, false, 1},
	vm.OpPropertyNilSafe: {"OpPropertyNilSafe", opdConstString, 1, false, 1},
	vm.OpCall:            {"OpCall", opdConstCall, -1, false, 1},
	vm.OpCallFast:        {"OpCallFast", opdConstCall, -1, false, 1},
	vm.OpMethod:          {"OpMethod", opdConstCall, -1, false, 1},
	vm.OpMethodNilSafe:   {"OpMethodNilSafe", opdConstCall, -1, false, 1},
	vm.OpArray:           {"OpArray", opdNone, -1, false, 1},
	vm.OpMap:             {"OpMap", opdNone, -1, false, 1},
	vm.OpLen:             {"OpLen", opdNone, 1, false, 2},
	vm.OpCast:            {"OpCast", opdCast, 1, false, 1},
	vm.OpStore:           {"OpStore", opdConstString, 1, true, 0},
	vm.OpLoad:            {"OpLoad", opdConstString, 0, true, 1},
	vm.OpInc:             {"OpInc", opdConstString, 0, true, 0},
	vm.OpBegin:           {"OpBegin", opdNone, 0, false, 0},
	vm.OpEnd:             {"OpEnd", opdNone, 0, true, 0},
}

func OpName(op byte) string {
	if i, ok := opTable[op]; ok {
		return i.name
	}
	return fmt.Sprintf("op(%#x)", op)
}

// Decoded program: instruction boundaries.
type Decoded struct {
	Boundary map[int]bool
	Ops      map[string]int
	Count    int
}

// Decode verifies the structural well-formedness of a program and returns the
// list of defects found (empty = well-formed).
func Decode(p *vm.Program) (*Decoded, []string) {
	d := &Decoded{Boundary: map[int]bool{}, Ops: map[string]int{}}
	var errs []string
	bad := func(f string, a ...interface{}) {
		if len(errs) < 8 {
			errs = append(errs, fmt.Sprintf(f, a...))
		}
	}
	bc := p.Bytecode
	type jump struct{ at, target int }
	var jumps []jump
	ip := 0
	for ip < len(bc) {
		pp := ip
		d.Boundary[pp] = true
		op := bc[ip]
		ip++
		info, ok := opTable[op]
		if !ok {
			bad("unknown opcode %#x at %d", op, pp)
			break
		}
		d.Ops[info.name]++
		d.Count++
		if info.opd == opdNone {
			continue
		}
		if ip+2 > len(bc) {
			bad("%s at %d: operand bytes missing", info.name, pp)
			break
		}
		arg := int(bc[ip]) | int(bc[ip+1])<<8
		ip += 2
		switch info.opd {
		case opdConstAny, opdConstString, opdConstCall, opdConstRegexp:
			if arg >= len(p.Constants) {
				bad("%s at %d: constant index %d out of range (%d constants)", info.name, pp, arg, len(p.Constants))
				continue
			}
			c := p.Constants[arg]
			switch info.opd {
			case opdConstString:
				if _, ok := c.(string); !ok {
					bad("%s at %d: constant %d is %T, want string", info.name, pp, arg, c)
				}
			case opdConstCall:
				cl, ok := c.(vm.Call)
				if !ok {
					bad("%s at %d: constant %d is %T, want vm.Call", info.name, pp, arg, c)
				} else if cl.Size < 0 || cl.Name == "" {
					bad("%s at %d: bad call descriptor %+v", info.name, pp, cl)
				}
			case opdConstRegexp:
				if r, ok := c.(*regexp.Regexp); !ok || r == nil {
					bad("%s at %d: constant %d is %T, want *regexp.Regexp", info.name, pp, arg, c)
				}
			}
		case opdJumpFwd:
			jumps = append(jumps, jump{pp, ip + arg})
		case opdJumpBack:
			jumps = append(jumps, jump{pp, ip - arg})
		case opdCast:
			if arg != 0 && arg != 1 {
				bad("OpCast at %d: argument %d", pp, arg)
			}
		}
	}
	for _, j := range jumps {
		if j.target == len(bc) {
			continue
		}
		if j.target < 0 || j.target > len(bc) || !d.Boundary[j.target] {
			bad("jump at %d lands at %d: not an instruction boundary (program length %d)", j.at, j.target, len(bc))
		}
	}
	for loc := range p.Locations {
		if !d.Boundary[loc] {
			bad("Locations has key %d which is not an instruction boundary", loc)
			break
		}
	}
	return d, errs
}

// Trace is the run-time stack-discipline monitor fed by the verif hook of a
// harness-owned VM.
type Trace struct {
	Dec     *Decoded
	Program *vm.Program
	Errs    []string
	Steps   int
	Ops     map[string]int
	MaxStk  int
	Ended   bool
	EndErr  error
	// allocation conservation (C06)
	Allocs    int
	AllocSum  int
	AllocReqs int
	// begin-state (C07)
	BeginBad []string
	Begins   int
}

func NewTrace(p *vm.Program, d *Decoded) *Trace {
	return &Trace{Dec: d, Program: p, Ops: map[string]int{}}
}

func (t *Trace) bad(f string, a ...interface{}) {
	if len(t.Errs) < 6 {
		t.Errs = append(t.Errs, fmt.Sprintf(f, a...))
	}
}

// Hook consumes one event.
func (t *Trace) Hook(e *vm.VerifEvent) {
	switch e.Kind {
	case vm.VerifBegin:
		t.Begins++
		t.Ended = false
		t.AllocSum = 0
		if e.Memory != 0 || e.StackLen != 0 || e.Scopes != 0 || e.IP != 0 {
			t.BeginBad = append(t.BeginBad, fmt.Sprintf("run begins with memory=%d stack=%d scopes=%d ip=%d (a fresh VM has 0,0,0,0)", e.Memory, e.StackLen, e.Scopes, e.IP))
		}
	case vm.VerifStep:
		t.Steps++
		info, ok := opTable[e.Op]
		if !ok {
			t.bad("executing unknown opcode %#x at %d", e.Op, e.PP)
			return
		}
		t.Ops[info.name]++
		if e.StackLen > t.MaxStk {
			t.MaxStk = e.StackLen
		}
		if t.Dec != nil && !t.Dec.Boundary[e.PP] {
			t.bad("executing at %d which is not an instruction boundary", e.PP)
		}
		need := info.pops
		if need < 0 {
			need = t.dynamicPops(e, info)
		}
		if e.StackLen < need {
			t.bad("%s at %d needs %d values, stack has %d", info.name, e.PP, need, e.StackLen)
		}
		if info.scope && e.Scopes < 1 {
			t.bad("%s at %d with no open scope", info.name, e.PP)
		}
	case vm.VerifAllocReq:
		t.AllocReqs++
		if e.Accounted < 0 {
			t.bad("allocation request of negative size %d at %d", e.Accounted, e.PP)
		}
	case vm.VerifAlloc:
		t.Allocs++
		if e.Accounted < 0 {
			t.bad("negative size %d accounted at %d", e.Accounted, e.PP)
		}
		n := lenOf(e.Created)
		if n != e.Accounted {
			t.bad("accounted %d elements for a collection of %d at %d", e.Accounted, n, e.PP)
		}
		t.AllocSum += n
		if e.Memory != t.AllocSum {
			t.bad("allocation counter is %d after creating %d elements in this run (at %d)", e.Memory, t.AllocSum, e.PP)
		}
	case vm.VerifEnd:
		t.Ended = true
		t.EndErr = e.Err
		if e.Err == nil {
			if e.StackLen != 1 {
				t.bad("successful run ends with %d values on the stack (want exactly the result)", e.StackLen)
			}
			if e.Scopes != 0 {
				t.bad("successful run ends with %d loop scopes open", e.Scopes)
			}
			if e.Memory >= e.Limit {
				t.bad("successful run created %d elements under a budget of %d", e.Memory, e.Limit)
			}
		}
	}
}

func lenOf(v interface{}) int {
	switch x := v.(type) {
	case []interface{}:
		return len(x)
	case []int:
		return len(x)
	case map[string]interface{}:
		return len(x)
	}
	return -1
}

func (t *Trace) dynamicPops(e *vm.VerifEvent, info opInfo) int {
	switch e.Op {
	case vm.OpCall, vm.OpCallFast, vm.OpMethod, vm.OpMethodNilSafe:
		// operand is the constant index of the call descriptor
		bc := t.Program.Bytecode
		if e.PP+2 >= len(bc) {
			return 0
		}
		arg := int(bc[e.PP+1]) | int(bc[e.PP+2])<<8
		if arg >= len(t.Program.Constants) {
			return 0
		}
		cl, ok := t.Program.Constants[arg].(vm.Call)
		if !ok {
			return 0
		}
		n := cl.Size
		if e.Op == vm.OpMethod || e.Op == vm.OpMethodNilSafe {
			n++
		}
		return n
	case vm.OpArray, vm.OpMap:
		st := e.VM.Stack()
		if len(st) == 0 {
			return 1
		}
		size, ok := st[len(st)-1].(int)
		if !ok {
			t.bad("%s at %d: size on the stack is %T", info.name, e.PP, st[len(st)-1])
			return 1
		}
		if size < 0 {
			t.bad("%s at %d: negative size %d", info.name, e.PP, size)
			return 1
		}
		if e.Op == vm.OpMap {
			return 1 + 2*size
		}
		return 1 + size
	}
	return 0
}

// RunTraced runs p on a harness-owned VM with the trace monitor attached and
// returns the result under recover.
func RunTraced(m *vm.VM, p *vm.Program, env interface{}, t *Trace) (out interface{}, err error, panicked interface{}) {
	defer func() {
		if r := recover(); r != nil {
			panicked = r
		}
	}()
	m.SetVerifHook(t.Hook)
	runner.LibEnter()
	defer runner.LibLeave()
	out, err = m.Run(p, env)
	return
}
