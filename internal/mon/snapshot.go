package mon

import (
	"fmt"
	"hash/fnv"
	"reflect"
	"regexp"
	"sort"
	"strings"

	"github.com/antonmedv/expr/vm"
)

// Snapshot renders everything reachable from v: unexported fields, the whole
// backing array of slices up to cap (so an append through a shared slice is
// visible), map contents by sorted key, pointees. Functions and channels are
// rendered by nil-ness only.
func Snapshot(v interface{}) string {
	var sb strings.Builder
	snap(&sb, reflect.ValueOf(v), 0, map[uintptr]bool{})
	return sb.String()
}

func SnapshotHash(v interface{}) uint64 {
	h := fnv.New64a()
	h.Write([]byte(Snapshot(v)))
	return h.Sum64()
}

func snap(sb *strings.Builder, v reflect.Value, depth int, seen map[uintptr]bool) {
	if !v.IsValid() {
		sb.WriteString("nil")
		return
	}
	if depth > 20 {
		sb.WriteString("<deep>")
		return
	}
	switch v.Kind() {
	case reflect.Interface:
		if v.IsNil() {
			sb.WriteString("nil")
			return
		}
		sb.WriteString(v.Elem().Type().String())
		sb.WriteByte(':')
		snap(sb, v.Elem(), depth+1, seen)
	case reflect.Ptr:
		if v.IsNil() {
			sb.WriteString("nil")
			return
		}
		p := v.Pointer()
		if seen[p] {
			sb.WriteString("<cycle>")
			return
		}
		if v.CanInterface() {
			if r, ok := v.Interface().(*regexp.Regexp); ok {
				sb.WriteString("regexp:" + r.String())
				return
			}
		}
		seen[p] = true
		sb.WriteByte('&')
		snap(sb, v.Elem(), depth+1, seen)
		delete(seen, p)
	case reflect.Slice:
		if v.IsNil() {
			sb.WriteString("nilslice")
			return
		}
		fmt.Fprintf(sb, "[len=%d cap=%d:", v.Len(), v.Cap())
		full := v.Slice(0, v.Cap())
		for i := 0; i < full.Len(); i++ {
			if i > 0 {
				sb.WriteByte(',')
			}
			snap(sb, full.Index(i), depth+1, seen)
		}
		sb.WriteByte(']')
	case reflect.Array:
		sb.WriteByte('[')
		for i := 0; i < v.Len(); i++ {
			if i > 0 {
				sb.WriteByte(',')
			}
			snap(sb, v.Index(i), depth+1, seen)
		}
		sb.WriteByte(']')
	case reflect.Map:
		if v.IsNil() {
			sb.WriteString("nilmap")
			return
		}
		type kv struct{ k, v string }
		var items []kv
		it := v.MapRange()
		for it.Next() {
			var kb, vb strings.Builder
			snap(&kb, it.Key(), depth+1, seen)
			snap(&vb, it.Value(), depth+1, seen)
			items = append(items, kv{kb.String(), vb.String()})
		}
		sort.Slice(items, func(i, j int) bool { return items[i].k < items[j].k })
		sb.WriteByte('{')
		for _, e := range items {
			sb.WriteString(e.k)
			sb.WriteByte(':')
			sb.WriteString(e.v)
			sb.WriteByte(';')
		}
		sb.WriteByte('}')
	case reflect.Struct:
		t := v.Type()
		sb.WriteString(t.String())
		sb.WriteByte('{')
		for i := 0; i < t.NumField(); i++ {
			sb.WriteString(t.Field(i).Name)
			sb.WriteByte('=')
			snap(sb, v.Field(i), depth+1, seen)
			sb.WriteByte(';')
		}
		sb.WriteByte('}')
	case reflect.Func, reflect.Chan, reflect.UnsafePointer:
		if v.IsNil() {
			sb.WriteString("nil")
		} else {
			sb.WriteString(v.Kind().String())
		}
	case reflect.String:
		fmt.Fprintf(sb, "%q", v.String())
	case reflect.Bool:
		fmt.Fprintf(sb, "%v", v.Bool())
	case reflect.Int, reflect.Int8, reflect.Int16, reflect.Int32, reflect.Int64:
		fmt.Fprintf(sb, "%s(%d)", v.Kind(), v.Int())
	case reflect.Uint, reflect.Uint8, reflect.Uint16, reflect.Uint32, reflect.Uint64, reflect.Uintptr:
		fmt.Fprintf(sb, "%s(%d)", v.Kind(), v.Uint())
	case reflect.Float32, reflect.Float64:
		fmt.Fprintf(sb, "%s(%x)", v.Kind(), v.Float())
	case reflect.Complex64, reflect.Complex128:
		fmt.Fprintf(sb, "%v", v.Complex())
	default:
		fmt.Fprintf(sb, "<%s>", v.Kind())
	}
}

// ProgramDigest renders a compiled program: bytecode, typed constants (maps
// sorted), locations by key, source text.
func ProgramDigest(p *vm.Program) string {
	var sb strings.Builder
	fmt.Fprintf(&sb, "bytecode=%x\n", p.Bytecode)
	for i, c := range p.Constants {
		fmt.Fprintf(&sb, "const[%d]=", i)
		if c == nil {
			sb.WriteString("nil")
		} else {
			sb.WriteString(reflect.TypeOf(c).String())
			sb.WriteByte(':')
			snap(&sb, reflect.ValueOf(c), 0, map[uintptr]bool{})
		}
		sb.WriteByte('\n')
	}
	keys := make([]int, 0, len(p.Locations))
	for k := range p.Locations {
		keys = append(keys, k)
	}
	sort.Ints(keys)
	for _, k := range keys {
		l := p.Locations[k]
		fmt.Fprintf(&sb, "loc[%d]=%d:%d\n", k, l.Line, l.Column)
	}
	if p.Source != nil {
		fmt.Fprintf(&sb, "source=%q\n", p.Source.Content())
	}
	return sb.String()
}

func HashStr(s string) uint64 {
	h := fnv.New64a()
	h.Write([]byte(s))
	return h.Sum64()
}
