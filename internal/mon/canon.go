// Package mon holds the monitors: value canon, bytecode decoder, hook
// consumers, deep snapshots.
package mon

import (
	"fmt"
	"math"
	"reflect"
	"sort"
	"strconv"
	"strings"
)

// Canon renders a value the way the properties compare results: numbers by
// kind and bits (all NaNs equal), strings, bools, nil (typed nil pointers,
// slices and maps are nil), sequences element by element regardless of their
// static slice type, maps by sorted key, structs by exported field, pointers by
// pointee.
func Canon(v interface{}) string {
	var sb strings.Builder
	canon(&sb, reflect.ValueOf(v), 0, true)
	return sb.String()
}

// CanonLoose is Canon without numeric kinds (value only), used where the
// property compares numbers by value.
func CanonLoose(v interface{}) string {
	var sb strings.Builder
	canon(&sb, reflect.ValueOf(v), 0, false)
	return sb.String()
}

func canon(sb *strings.Builder, v reflect.Value, depth int, kinds bool) {
	if depth > 12 {
		sb.WriteString("<deep>")
		return
	}
	if !v.IsValid() {
		sb.WriteString("nil")
		return
	}
	switch v.Kind() {
	case reflect.Interface:
		if v.IsNil() {
			sb.WriteString("nil")
			return
		}
		canon(sb, v.Elem(), depth, kinds)
	case reflect.Ptr:
		if v.IsNil() {
			sb.WriteString("nil")
			return
		}
		sb.WriteString("&")
		canon(sb, v.Elem(), depth+1, kinds)
	case reflect.Bool:
		sb.WriteString(strconv.FormatBool(v.Bool()))
	case reflect.Int, reflect.Int8, reflect.Int16, reflect.Int32, reflect.Int64:
		if kinds {
			sb.WriteString(v.Kind().String())
			sb.WriteByte(':')
		}
		sb.WriteString(strconv.FormatInt(v.Int(), 10))
	case reflect.Uint, reflect.Uint8, reflect.Uint16, reflect.Uint32, reflect.Uint64, reflect.Uintptr:
		if kinds {
			sb.WriteString(v.Kind().String())
			sb.WriteByte(':')
		}
		sb.WriteString(strconv.FormatUint(v.Uint(), 10))
	case reflect.Float32, reflect.Float64:
		f := v.Float()
		if kinds {
			sb.WriteString(v.Kind().String())
			sb.WriteByte(':')
		}
		if math.IsNaN(f) {
			sb.WriteString("NaN")
		} else if kinds {
			sb.WriteString(strconv.FormatFloat(f, 'g', -1, 64))
			if f == 0 && math.Signbit(f) {
				sb.WriteString("(neg0)")
			}
		} else {
			sb.WriteString(strconv.FormatFloat(f, 'g', -1, 64))
		}
	case reflect.String:
		sb.WriteString(strconv.Quote(v.String()))
	case reflect.Slice, reflect.Array:
		if v.Kind() == reflect.Slice && v.IsNil() {
			// a nil slice and an empty slice are both the empty sequence
			sb.WriteString("[]")
			return
		}
		sb.WriteByte('[')
		for i := 0; i < v.Len(); i++ {
			if i > 0 {
				sb.WriteByte(',')
			}
			canon(sb, v.Index(i), depth+1, kinds)
		}
		sb.WriteByte(']')
	case reflect.Map:
		if v.IsNil() {
			sb.WriteString("{}")
			return
		}
		type kv struct{ k, v string }
		var items []kv
		it := v.MapRange()
		for it.Next() {
			var kb, vb strings.Builder
			canon(&kb, it.Key(), depth+1, kinds)
			canon(&vb, it.Value(), depth+1, kinds)
			items = append(items, kv{kb.String(), vb.String()})
		}
		sort.Slice(items, func(i, j int) bool { return items[i].k < items[j].k })
		sb.WriteByte('{')
		for i, e := range items {
			if i > 0 {
				sb.WriteByte(',')
			}
			sb.WriteString(e.k)
			sb.WriteByte(':')
			sb.WriteString(e.v)
		}
		sb.WriteByte('}')
	case reflect.Struct:
		t := v.Type()
		sb.WriteString(t.Name())
		sb.WriteByte('{')
		first := true
		for i := 0; i < t.NumField(); i++ {
			f := t.Field(i)
			if f.PkgPath != "" {
				continue
			}
			if !first {
				sb.WriteByte(',')
			}
			first = false
			sb.WriteString(f.Name)
			sb.WriteByte(':')
			canon(sb, v.Field(i), depth+1, kinds)
		}
		sb.WriteByte('}')
	case reflect.Func:
		if v.IsNil() {
			sb.WriteString("nil")
		} else {
			sb.WriteString("func")
		}
	default:
		fmt.Fprintf(sb, "<%s>", v.Kind())
	}
}

// Short renders a value for reports.
func Short(v interface{}) string {
	s := fmt.Sprintf("%T=%s", v, Canon(v))
	if len(s) > 300 {
		s = s[:300] + "…"
	}
	return s
}
