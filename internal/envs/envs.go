// Package envs is the environment universe of the harness: one struct type
// with members of every kind the properties talk about, logging functions, and
// value generators (zero, boundary, random).
package envs

import (
	"fmt"
	"math"
	"reflect"
	"sort"
	"strings"

	"verif/internal/runner"
)

// Log records calls of environment functions: (seq, name, args).
type Log struct {
	Calls []string
	// PanicAt > 0 makes the PanicAt-th call (1-based) panic after logging.
	PanicAt int
}

func (l *Log) add(name string, args ...interface{}) {
	if l == nil {
		return
	}
	var sb strings.Builder
	sb.WriteString(name)
	sb.WriteByte('(')
	for i, a := range args {
		if i > 0 {
			sb.WriteByte(',')
		}
		// sequences are logged without their Go element type (an array literal
		// may reach a function as []interface{} or as a folded typed slice)
		if a != nil && reflect.TypeOf(a).Kind() == reflect.Slice {
			fmt.Fprintf(&sb, "seq:%s", stable(a))
		} else {
			fmt.Fprintf(&sb, "%T:%s", a, stable(a))
		}
	}
	sb.WriteByte(')')
	l.Calls = append(l.Calls, sb.String())
	if l.PanicAt > 0 && len(l.Calls) == l.PanicAt {
		panic(fmt.Sprintf("injected panic at call %d", l.PanicAt))
	}
}

func (l *Log) Reset() { l.Calls = l.Calls[:0] }

func (l *Log) String() string { return strings.Join(l.Calls, ";") }

type Item struct {
	ID    int
	Name  string
	Score float64
	Flag  bool
	Tags  []string
	Vals  []int
	Next  *Item
	log   *Log
}

// Double has a value receiver.
func (it Item) Double() int {
	it.log.add("Item.Double", it.ID)
	return it.ID * 2
}

// Plus has a value receiver and one argument.
func (it Item) Plus(n int) int {
	it.log.add("Item.Plus", it.ID, n)
	return it.ID + n
}

// Label has a pointer receiver and dereferences it (nil receiver panics).
func (it *Item) Label() string {
	it.log.add("Item.Label", it.ID)
	return it.Name + "!"
}

// Env is the typed environment. Unexported members are invisible to expr.
type Env struct {
	// one field per numeric kind
	U   uint
	U8  uint8
	U16 uint16
	U32 uint32
	U64 uint64
	I   int
	I8  int8
	I16 int16
	I32 int32
	I64 int64
	F32 float32
	F64 float64

	A, B, C int
	Z       int // always zero
	X, Y    float64
	S, T    string
	Re      string // a valid regular expression
	BadRe   string // an invalid regular expression
	P, Q    bool

	Ints   []int
	Ints2  []int
	Floats []float64
	Strs   []string
	Items  []Item
	PItems []*Item
	Anys   []interface{}
	Empty  []int
	Arr3   [3]int // Go arrays (not slices)
	ArrS   [2]string

	MI map[string]int
	MA map[string]interface{}

	It    Item
	PIt   *Item // never nil
	NilIt *Item // always nil

	AnyI interface{} // holds an int
	AnyS interface{} // holds a string
	AnyN interface{} // holds nil
	AnyF interface{} // holds a float64

	// function-valued fields; all log their calls
	FnI     func(int) int
	FnII    func(int, int) int
	FnF     func(float64) float64
	FnS     func(string) string
	FnB     func(bool) bool
	FnU8    func(uint8) int
	FnI64   func(int64) int64
	FnF32   func(float32) float64
	FnInts  func([]int) int
	FnItem  func(Item) int
	FnAny   func(interface{}) interface{}
	FnVar   func(...int) int
	Fast    func(...interface{}) interface{}
	MkInts  func(int) []int
	MkItem  func(int) *Item
	Div     func(int, int) int // panics for a zero divisor
	EqAny   func(a, b interface{}) interface{}
	FnEnv   func(int) int                    // depends on the environment it belongs to (adds B)
	StrEq   func(a, b fmt.Stringer) bool     // parameters of a non-empty interface type
	MkBox   func(int) Box                    // a struct value that cannot be a map key
	FnAnys  func([]interface{}) int          // takes what an array literal is typed as
	Tuple   func(...interface{}) interface{} // returns (and so retains) its own argument slice
	FnPIt   func(*Item) int                  // pointer parameter: accepts nil
	FnCel   func(Celsius) float64            // parameter of a type defined from float64
	FnI8    func(int8) int8                  // a narrow parameter: literals in its argument are retyped to int8
	SumF    func(...float64) float64         // variadic over a numeric kind other than int
	MS      map[string]string                // a second unnamed map type with the member names of MI
	RevInts func([]int) []int                // reverses its argument in place (like sort.Ints) and returns it
	FnLvl   func(Level) int                  // parameter of a type defined from int

	log *Log
}

// types defined from predeclared numeric types
type Celsius float64
type Level int

// Box holds a slice and a dynamic value: comparable as a Go type, but a Box
// whose Any holds a slice panics when hashed.
type Box struct {
	Xs  []int
	N   int
	Any interface{}
}

// PInc has a pointer receiver: it exists for *Env only.
func (e *Env) PInc(n int) int {
	e.log.add("PInc", n)
	return n + 2
}

// Methods on Env (value receiver, usable through Env and *Env).
func (e Env) Inc(n int) int {
	e.log.add("Inc", n)
	return n + 1
}

// AddA depends on the environment value it is called on.
func (e Env) AddA(n int) int {
	e.log.add("AddA", n)
	return n + e.A
}

func (e Env) Cat(a, b string) string {
	e.log.add("Cat", a, b)
	return a + b
}

func (e Env) IsPos(n int) bool {
	e.log.add("IsPos", n)
	return n > 0
}

func (e Env) Half(f float64) float64 {
	e.log.add("Half", f)
	return f / 2
}

// New builds a fully populated environment whose functions log into l.
func New(l *Log) *Env {
	e := &Env{log: l}
	e.FnI = func(n int) int { l.add("FnI", n); return n*3 + 1 }
	e.FnII = func(a, b int) int { l.add("FnII", a, b); return a*10 + b }
	e.FnF = func(f float64) float64 { l.add("FnF", f); return f + 0.5 }
	e.FnS = func(s string) string { l.add("FnS", s); return "<" + s + ">" }
	e.FnB = func(b bool) bool { l.add("FnB", b); return !b }
	e.FnU8 = func(u uint8) int { l.add("FnU8", u); return int(u) + 1000 }
	e.FnI64 = func(i int64) int64 { l.add("FnI64", i); return i - 7 }
	e.FnF32 = func(f float32) float64 { l.add("FnF32", f); return float64(f) * 2 }
	e.FnInts = func(xs []int) int {
		l.add("FnInts", fmt.Sprint(xs))
		s := 0
		for _, x := range xs {
			s += x
		}
		return s
	}
	e.FnItem = func(it Item) int { l.add("FnItem", it.ID); return it.ID + 100 }
	e.FnAny = func(v interface{}) interface{} { l.add("FnAny", v); return v }
	e.FnVar = func(xs ...int) int {
		l.add("FnVar", fmt.Sprint(xs))
		s := len(xs) * 1000
		for _, x := range xs {
			s += x
		}
		return s
	}
	e.Fast = func(xs ...interface{}) interface{} { l.add("Fast", fmt.Sprint(xs)); return len(xs) }
	e.MkInts = func(n int) []int {
		l.add("MkInts", n)
		if n < 0 {
			n = 0
		}
		if n > 50 {
			n = 50
		}
		out := make([]int, n)
		for i := range out {
			out[i] = i * i
		}
		return out
	}
	e.EqAny = func(a, b interface{}) interface{} { l.add("EqAny", a, b); return a == nil || b == nil }
	e.StrEq = func(a, b fmt.Stringer) bool { l.add("StrEq", a, b); return a == b }
	e.FnEnv = func(n int) int { l.add("FnEnv", n); return n + e.B }
	e.Div = func(a, b int) int { l.add("Div", a, b); return a / b }
	e.Arr3, e.ArrS = [3]int{7, 8, 9}, [2]string{"p", "q"}
	e.MkBox = func(n int) Box { l.add("MkBox", n); return Box{Xs: []int{n, n + 1}, N: n, Any: []int{n}} }
	e.FnAnys = func(xs []interface{}) int { l.add("FnAnys", xs); return len(xs) }
	e.RevInts = func(xs []int) []int {
		l.add("RevInts", fmt.Sprint(xs))
		for i, j := 0, len(xs)-1; i < j; i, j = i+1, j-1 {
			xs[i], xs[j] = xs[j], xs[i]
		}
		return xs
	}
	e.SumF = func(xs ...float64) float64 {
		l.add("SumF", fmt.Sprint(xs))
		t := 0.0
		for _, x := range xs {
			t += x
		}
		return t
	}
	e.MS = map[string]string{"a": "x", "foobar": "y"}
	e.FnI8 = func(n int8) int8 { l.add("FnI8", n); return n }
	e.FnCel = func(c Celsius) float64 { l.add("FnCel", float64(c)); return float64(c) * 2 }
	e.FnLvl = func(v Level) int { l.add("FnLvl", int(v)); return int(v) + 1 }
	e.FnPIt = func(it *Item) int {
		if it == nil {
			l.add("FnPIt", nil)
			return -1
		}
		l.add("FnPIt", it.ID)
		return it.ID
	}
	e.Tuple = func(xs ...interface{}) interface{} { l.add("Tuple", fmt.Sprint(xs)); return xs }
	e.MkItem = func(n int) *Item {
		l.add("MkItem", n)
		if n%3 == 0 {
			return nil
		}
		return &Item{ID: n, Name: fmt.Sprintf("mk%d", n), log: l}
	}
	return e
}

func mkItem(l *Log, r *runner.Rng, depth int) Item {
	it := Item{ID: smallInt(r), Name: randWord(r), Score: float64(r.Intn(2000)-1000) / 8, Flag: r.Bool(), log: l}
	for i := r.Intn(3); i > 0; i-- {
		it.Tags = append(it.Tags, randWord(r))
	}
	for i := r.Intn(4); i > 0; i-- {
		it.Vals = append(it.Vals, smallInt(r))
	}
	if depth > 0 && r.Chance(1, 2) {
		n := mkItem(l, r, depth-1)
		it.Next = &n
	}
	return it
}

var words = []string{"", "a", "b", "ab", "abc", "foo", "bar", "foobar", "Hello", "héllo", "世界", "x y", "a.b", "A", "zz", "😀k", "0", "10", "[", "a*"}

func randWord(r *runner.Rng) string { return words[r.Intn(len(words))] }

func smallInt(r *runner.Rng) int {
	switch r.Intn(10) {
	case 0:
		return 0
	case 1:
		return 1
	case 2:
		return -1
	case 3:
		return r.Intn(2001) - 1000
	default:
		return r.Intn(21) - 6
	}
}

var boundaryInts = []int{0, 1, -1, 2, 127, 128, 255, 256, -128, -129, 32767, 32768, 65535, 65536, math.MaxInt32, math.MaxInt32 + 1, math.MinInt32, math.MaxInt64, math.MinInt64, math.MaxInt64 - 1, 1 << 53, 1<<53 + 1}

// Fill populates the data members of e in one of several styles:
// style 0 = zero values (but non-nil required pointers), 1 = boundary values,
// 2 = empty collections / nil-ish, >=3 random.
func Fill(e *Env, style int, r *runner.Rng) {
	l := e.log
	e.Z = 0
	e.Re = "^a.*"
	e.BadRe = "a(b"
	e.NilIt = nil
	e.AnyN = nil
	e.AnyF = float64(r.Intn(9)) / 2
	switch style {
	case 0:
		e.PIt = &Item{log: l}
		e.It = Item{log: l}
		e.AnyI = 0
		e.AnyS = ""
		e.Ints, e.Ints2, e.Floats, e.Strs, e.Items, e.PItems, e.Anys, e.Empty = nil, nil, nil, nil, nil, nil, nil, nil
		e.MI, e.MA = nil, nil
		return
	case 1:
		bi := func() int { return boundaryInts[r.Intn(len(boundaryInts))] }
		e.U, e.U8, e.U16, e.U32, e.U64 = uint(bi()), uint8(bi()), uint16(bi()), uint32(bi()), uint64(bi())
		e.I, e.I8, e.I16, e.I32, e.I64 = bi(), int8(bi()), int16(bi()), int32(bi()), int64(bi())
		fs := []float64{0, math.Copysign(0, -1), 1, -1, 0.5, math.MaxFloat64, math.SmallestNonzeroFloat64, math.Inf(1), math.Inf(-1), math.NaN(), 1 << 53, 16777217, 1e300}
		e.F32, e.F64 = float32(fs[r.Intn(len(fs))]), fs[r.Intn(len(fs))]
		e.A, e.B, e.C = bi(), bi(), bi()
		e.X, e.Y = fs[r.Intn(len(fs))], fs[r.Intn(len(fs))]
		e.S, e.T = "", "世界"
		e.P, e.Q = true, false
		e.Ints = []int{math.MaxInt64, math.MinInt64, 0}
		e.Ints2 = []int{0}
		e.Floats = []float64{math.NaN(), math.Inf(1), 0}
		e.Strs = []string{""}
		e.Items = []Item{{log: l}}
		e.PItems = []*Item{nil}
		e.Anys = []interface{}{nil, 0, "", false, 1.5, []int{1}}
		e.Empty = []int{}
		e.MI = map[string]int{"": 0}
		e.MA = map[string]interface{}{"a": nil}
		e.It = Item{ID: math.MaxInt64, log: l}
		e.PIt = &Item{ID: math.MinInt64, log: l}
		e.AnyI = bi()
		e.AnyS = "世"
		return
	case 2:
		e.PIt = &Item{log: l}
		e.It = Item{log: l}
		e.Ints, e.Ints2, e.Floats, e.Strs = []int{}, []int{}, []float64{}, []string{}
		e.Items, e.PItems, e.Anys, e.Empty = []Item{}, []*Item{}, []interface{}{}, []int{}
		e.MI, e.MA = map[string]int{}, map[string]interface{}{}
		e.AnyI, e.AnyS = 1, "a"
		e.A, e.B, e.C = 1, 2, 3
		return
	}
	e.U, e.U8, e.U16, e.U32, e.U64 = uint(r.Intn(100)), uint8(r.Intn(256)), uint16(r.Intn(70000)), uint32(r.U64()), r.U64()>>uint(r.Intn(64))
	e.I, e.I8, e.I16, e.I32, e.I64 = smallInt(r), int8(r.Intn(256)), int16(r.Intn(65536)), int32(r.U64()), int64(r.U64())>>uint(r.Intn(64))
	e.F32, e.F64 = float32(r.Intn(4001)-2000)/16, float64(r.Intn(200001)-100000)/64
	e.A, e.B, e.C = smallInt(r), smallInt(r), smallInt(r)
	e.X, e.Y = float64(r.Intn(401)-200)/4, float64(r.Intn(41)-20)/2
	e.S, e.T = randWord(r), randWord(r)
	e.P, e.Q = r.Bool(), r.Bool()
	e.Ints, e.Ints2, e.Floats, e.Strs = nil, nil, nil, nil
	for i := r.Intn(7); i > 0; i-- {
		e.Ints = append(e.Ints, smallInt(r))
	}
	for i := r.Intn(5); i > 0; i-- {
		e.Ints2 = append(e.Ints2, smallInt(r))
	}
	for i := r.Intn(5); i > 0; i-- {
		e.Floats = append(e.Floats, float64(r.Intn(81)-40)/4)
	}
	for i := r.Intn(5); i > 0; i-- {
		e.Strs = append(e.Strs, randWord(r))
	}
	e.Items, e.PItems, e.Anys = nil, nil, nil
	for i := r.Intn(5); i > 0; i-- {
		e.Items = append(e.Items, mkItem(l, r, 1))
	}
	for i := r.Intn(5); i > 0; i-- {
		if r.Chance(1, 5) {
			e.PItems = append(e.PItems, nil)
		} else {
			it := mkItem(l, r, 1)
			e.PItems = append(e.PItems, &it)
		}
	}
	for i := r.Intn(5); i > 0; i-- {
		switch r.Intn(6) {
		case 0:
			e.Anys = append(e.Anys, nil)
		case 1:
			e.Anys = append(e.Anys, smallInt(r))
		case 2:
			e.Anys = append(e.Anys, randWord(r))
		case 3:
			e.Anys = append(e.Anys, r.Bool())
		case 4:
			e.Anys = append(e.Anys, float64(r.Intn(9))/2)
		case 5:
			e.Anys = append(e.Anys, int64(smallInt(r)))
		}
	}
	e.Empty = []int{}
	e.MI = map[string]int{}
	for i := r.Intn(4); i > 0; i-- {
		e.MI[randWord(r)] = smallInt(r)
	}
	e.MA = map[string]interface{}{}
	for i := r.Intn(4); i > 0; i-- {
		switch r.Intn(3) {
		case 0:
			e.MA[randWord(r)] = smallInt(r)
		case 1:
			e.MA[randWord(r)] = randWord(r)
		case 2:
			e.MA[randWord(r)] = nil
		}
	}
	e.It = mkItem(l, r, 2)
	p := mkItem(l, r, 2)
	e.PIt = &p
	e.AnyI = smallInt(r)
	e.AnyS = randWord(r)
}

// AsMap returns a map[string]interface{} with the same members as e
// (exported fields and the Env methods as function values).
func AsMap(e *Env) map[string]interface{} {
	m := map[string]interface{}{}
	v := reflect.ValueOf(e).Elem()
	t := v.Type()
	for i := 0; i < t.NumField(); i++ {
		f := t.Field(i)
		if f.PkgPath != "" {
			continue
		}
		m[f.Name] = v.Field(i).Interface()
	}
	m["Inc"] = e.Inc
	m["Cat"] = e.Cat
	m["IsPos"] = e.IsPos
	m["Half"] = e.Half
	m["AddA"] = e.AddA
	return m
}

var EnvType = reflect.TypeOf(Env{})

// ResetLog empties the call log of e (the log is harness state, not part of
// the environment the library sees).
func ResetLog(e *Env) {
	if e.log != nil {
		e.log.Calls = nil
		e.log.PanicAt = 0
	}
}

// stable renders a logged argument without pointer addresses (an Item carries
// a pointer to its call log, which differs between two equal environments).
func stable(a interface{}) string {
	switch x := a.(type) {
	case Item:
		return fmt.Sprintf("Item{%d %q %v %v}", x.ID, x.Name, x.Score, x.Flag)
	case *Item:
		if x == nil {
			return "nil"
		}
		return fmt.Sprintf("&Item{%d %q %v %v}", x.ID, x.Name, x.Score, x.Flag)
	case []Item:
		parts := make([]string, len(x))
		for i := range x {
			parts[i] = stable(x[i])
		}
		return "[" + strings.Join(parts, " ") + "]"
	case []*Item:
		parts := make([]string, len(x))
		for i := range x {
			parts[i] = stable(x[i])
		}
		return "[" + strings.Join(parts, " ") + "]"
	case []interface{}:
		parts := make([]string, len(x))
		for i := range x {
			parts[i] = stable(x[i])
		}
		return "[" + strings.Join(parts, " ") + "]"
	case map[string]interface{}:
		keys := make([]string, 0, len(x))
		for k := range x {
			keys = append(keys, k)
		}
		sort.Strings(keys)
		parts := make([]string, len(keys))
		for i, k := range keys {
			parts[i] = k + ":" + stable(x[k])
		}
		return "{" + strings.Join(parts, " ") + "}"
	}
	return fmt.Sprintf("%v", a)
}
