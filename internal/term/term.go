// Package term is the harness's own typed term language for the documented
// expr grammar: constructors that apply the reference typing rules, a printer,
// and generators. It does not import any package of the library under test.
package term

import (
	"fmt"
	"reflect"
	"strconv"
	"strings"

	"verif/internal/envs"
)

type Kind int

const (
	KInt Kind = iota
	KFloat
	KStr
	KBool
	KNil
	KIdent
	KUnary
	KBinary
	KField   // Sub[0].Op
	KIndex   // Sub[0][Sub[1]]
	KSlice   // Sub[0][Sub[1]:Sub[2]] (bounds may be nil)
	KMethod  // Sub[0].Op(Sub[1:]...)
	KCall    // Op(Sub...)
	KBuiltin // Op(Sub[0]) or Op(Sub[0], {Sub[1]})
	KPointer // #
	KCond    // Sub[0] ? Sub[1] : Sub[2]
	KArray
	KMap // Keys[i]: Sub[i]
)

var kindNames = []string{"int", "float", "str", "bool", "nil", "ident", "unary", "binary", "field", "index", "slice", "method", "call", "builtin", "pointer", "cond", "array", "map"}

func (k Kind) String() string { return kindNames[k] }

type Term struct {
	K       Kind
	Op      string
	Int     int
	Flt     float64
	Str     string
	Bool    bool
	Sub     []*Term
	Keys    []string
	NilSafe bool
	Short   bool // field access on # printed as ".f"
	// T is the static type by the reference rules; NilT for the nil literal.
	T reflect.Type
	// Unspec marks a construct whose meaning the language definition does not
	// settle; outcomes of terms containing one are not judged against the
	// reference value.
	Unspec bool
}

type nilMarker struct{}

var (
	NilT    = reflect.TypeOf(nilMarker{})
	IntT    = reflect.TypeOf(int(0))
	FloatT  = reflect.TypeOf(float64(0))
	StrT    = reflect.TypeOf("")
	BoolT   = reflect.TypeOf(true)
	AnyT    = reflect.TypeOf((*interface{})(nil)).Elem()
	ArrT    = reflect.TypeOf([]interface{}{})
	MapT    = reflect.TypeOf(map[string]interface{}{})
	IntsT   = reflect.TypeOf([]int{})
	FloatsT = reflect.TypeOf([]float64{})
	StrsT   = reflect.TypeOf([]string{})
	ItemT   = reflect.TypeOf(envs.Item{})
	PItemT  = reflect.TypeOf(&envs.Item{})
	ItemsT  = reflect.TypeOf([]envs.Item{})
	PItemsT = reflect.TypeOf([]*envs.Item{})
	MIT     = reflect.TypeOf(map[string]int{})
)

// Rank is the promotion rank of C14: uint < uint8 < ... < uint64 < int < int8
// < ... < int64 < float32 < float64. 0 = not numeric.
func Rank(t reflect.Type) int {
	if t == nil {
		return 0
	}
	switch t.Kind() {
	case reflect.Uint:
		return 1
	case reflect.Uint8:
		return 2
	case reflect.Uint16:
		return 3
	case reflect.Uint32:
		return 4
	case reflect.Uint64:
		return 5
	case reflect.Int:
		return 6
	case reflect.Int8:
		return 7
	case reflect.Int16:
		return 8
	case reflect.Int32:
		return 9
	case reflect.Int64:
		return 10
	case reflect.Float32:
		return 11
	case reflect.Float64:
		return 12
	}
	return 0
}

func IsNum(t reflect.Type) bool     { return Rank(t) > 0 }
func IsInteger(t reflect.Type) bool { r := Rank(t); return r > 0 && r <= 10 }
func IsStr(t reflect.Type) bool     { return t != nil && t.Kind() == reflect.String }
func IsBool(t reflect.Type) bool    { return t != nil && t.Kind() == reflect.Bool }
func IsAny(t reflect.Type) bool     { return t != nil && t.Kind() == reflect.Interface }
func IsSlice(t reflect.Type) bool   { return t != nil && t.Kind() == reflect.Slice }
func IsMap(t reflect.Type) bool     { return t != nil && t.Kind() == reflect.Map }
func IsStructish(t reflect.Type) bool {
	if t == nil || t == NilT {
		return false
	}
	if t.Kind() == reflect.Ptr {
		t = t.Elem()
	}
	return t.Kind() == reflect.Struct
}
func IsNilable(t reflect.Type) bool {
	if t == nil {
		return false
	}
	switch t.Kind() {
	case reflect.Ptr, reflect.Interface, reflect.Slice, reflect.Map:
		return true
	}
	return t == NilT
}

func Promote(a, b reflect.Type) reflect.Type {
	if Rank(a) > Rank(b) {
		return a
	}
	return b
}

// TypeErr is returned by the typed constructors when the reference typing
// rules reject the term.
type TypeErr struct{ Msg string }

func (e *TypeErr) Error() string { return e.Msg }

func terr(f string, a ...interface{}) error { return &TypeErr{fmt.Sprintf(f, a...)} }

// Scope is the typing context: the environment type and the element types of
// the enclosing closures (innermost last). AllowAny admits interface{}-typed
// operands with the checker's looseness (used by C01/C15, not by C03).
type Scope struct {
	Env      reflect.Type
	Elems    []reflect.Type
	AllowAny bool
}

func Int(v int) *Term       { return &Term{K: KInt, Int: v, T: IntT} }
func Float(v float64) *Term { return &Term{K: KFloat, Flt: v, T: FloatT} }
func Str(v string) *Term    { return &Term{K: KStr, Str: v, T: StrT} }
func Bool(v bool) *Term     { return &Term{K: KBool, Bool: v, T: BoolT} }
func Nil() *Term            { return &Term{K: KNil, T: NilT} }

func Ident(sc *Scope, name string) (*Term, error) {
	f, ok := sc.Env.FieldByName(name)
	if !ok || f.PkgPath != "" {
		return nil, terr("unknown name %s", name)
	}
	return &Term{K: KIdent, Op: name, T: f.Type}, nil
}

func Pointer(sc *Scope) (*Term, error) {
	if len(sc.Elems) == 0 {
		return nil, terr("# outside closure")
	}
	return &Term{K: KPointer, T: sc.Elems[len(sc.Elems)-1]}, nil
}

func Unary(sc *Scope, op string, x *Term) (*Term, error) {
	t := &Term{K: KUnary, Op: op, Sub: []*Term{x}}
	switch op {
	case "not", "!":
		if IsBool(x.T) || (sc.AllowAny && IsAny(x.T)) {
			t.T = BoolT
			return t, nil
		}
	case "-", "+":
		if IsNum(x.T) {
			t.T = x.T
			return t, nil
		}
		if sc.AllowAny && IsAny(x.T) {
			t.T = AnyT
			return t, nil
		}
	}
	return nil, terr("bad unary %s on %v", op, x.T)
}

var BinOps = []string{"or", "||", "and", "&&", "==", "!=", "<", ">", "<=", ">=", "in", "not in", "matches", "contains", "startsWith", "endsWith", "..", "+", "-", "*", "/", "%", "**"}

func Binary(sc *Scope, op string, l, r *Term) (*Term, error) {
	t := &Term{K: KBinary, Op: op, Sub: []*Term{l, r}}
	lt, rt := l.T, r.T
	anyL, anyR := sc.AllowAny && IsAny(lt), sc.AllowAny && IsAny(rt)
	num := func(x reflect.Type, a bool) bool { return IsNum(x) || a }
	integer := func(x reflect.Type, a bool) bool { return IsInteger(x) || a }
	str := func(x reflect.Type, a bool) bool { return IsStr(x) || a }
	bl := func(x reflect.Type, a bool) bool { return IsBool(x) || a }
	switch op {
	case "or", "||", "and", "&&":
		if bl(lt, anyL) && bl(rt, anyR) {
			t.T = BoolT
			return t, nil
		}
	case "==", "!=":
		ok := false
		switch {
		case IsNum(lt) && IsNum(rt), IsStr(lt) && IsStr(rt), IsBool(lt) && IsBool(rt):
			ok = true
		case lt == NilT && IsNilable(rt), rt == NilT && IsNilable(lt):
			ok = true
			// nil against a slice or map: isNil semantics, fine.
		case anyL || anyR:
			ok = true
			// equality of a dynamic value with a sequence/map/struct is DeepEqual
			// on Go types: not settled by the definition.
			o := rt
			if anyR {
				o = lt
			}
			if !IsNum(o) && !IsStr(o) && !IsBool(o) && o != NilT && !IsAny(o) {
				t.Unspec = true
			}
		}
		if ok {
			t.T = BoolT
			return t, nil
		}
	case "<", ">", "<=", ">=":
		if (num(lt, anyL) && num(rt, anyR)) && !(anyL && anyR && false) {
			if IsStr(lt) || IsStr(rt) {
				break
			}
			t.T = BoolT
			return t, nil
		}
		if str(lt, anyL) && str(rt, anyR) {
			t.T = BoolT
			return t, nil
		}
	case "+":
		if IsNum(lt) && IsNum(rt) {
			t.T = Promote(lt, rt)
			return t, nil
		}
		if IsStr(lt) && IsStr(rt) {
			t.T = StrT
			return t, nil
		}
		if (anyL && (IsNum(rt) || IsStr(rt) || anyR)) || (anyR && (IsNum(lt) || IsStr(lt))) {
			t.T = anyArith(lt, rt)
			return t, nil
		}
	case "-", "*", "/":
		if IsNum(lt) && IsNum(rt) {
			t.T = Promote(lt, rt)
			return t, nil
		}
		if (anyL && (IsNum(rt) || anyR)) || (anyR && IsNum(lt)) {
			t.T = anyArith(lt, rt)
			return t, nil
		}
	case "%":
		if IsInteger(lt) && IsInteger(rt) {
			t.T = Promote(lt, rt)
			return t, nil
		}
		if (anyL && (IsInteger(rt) || anyR)) || (anyR && IsInteger(lt)) {
			t.T = anyArith(lt, rt)
			return t, nil
		}
	case "**":
		if num(lt, anyL) && num(rt, anyR) {
			t.T = FloatT
			return t, nil
		}
	case "..":
		if integer(lt, anyL) && integer(rt, anyR) {
			t.T = IntsT
			return t, nil
		}
	case "contains", "startsWith", "endsWith", "matches":
		if str(lt, anyL) && str(rt, anyR) {
			t.T = BoolT
			return t, nil
		}
	case "in", "not in":
		switch {
		case IsSlice(rt):
			et := rt.Elem()
			if (IsNum(lt) && IsNum(et)) || (IsStr(lt) && IsStr(et)) || (IsBool(lt) && IsBool(et)) {
				t.T = BoolT
				return t, nil
			}
			if IsAny(et) && (IsNum(lt) || IsStr(lt) || IsBool(lt) || lt == NilT || anyL) {
				t.T = BoolT
				return t, nil
			}
			if anyL && (IsNum(et) || IsStr(et) || IsBool(et)) {
				t.T = BoolT
				return t, nil
			}
		case IsMap(rt):
			if IsStr(lt) && rt.Key().Kind() == reflect.String {
				t.T = BoolT
				return t, nil
			}
		case IsStructish(rt):
			if IsStr(lt) {
				t.T = BoolT
				if rt.Kind() == reflect.Ptr {
					// membership in a nil pointer: the definition is silent
					t.Unspec = true
				}
				return t, nil
			}
		}
	}
	return nil, terr("bad binary %v %s %v", lt, op, rt)
}

// anyArith is the checker's static type for arithmetic with a dynamic operand
// (combined(): the higher weight wins, interface{} has weight 0 and loses
// unless both are dynamic).
func anyArith(l, r reflect.Type) reflect.Type {
	if IsAny(l) && IsAny(r) {
		return AnyT
	}
	if IsAny(l) {
		return r
	}
	return l
}

func deref(t reflect.Type) reflect.Type {
	if t != nil && t.Kind() == reflect.Ptr {
		return t.Elem()
	}
	return t
}

func Field(sc *Scope, x *Term, name string, nilsafe bool) (*Term, error) {
	t := &Term{K: KField, Op: name, Sub: []*Term{x}, NilSafe: nilsafe}
	d := deref(x.T)
	if d == nil {
		return nil, terr("field of nil")
	}
	switch d.Kind() {
	case reflect.Struct:
		f, ok := d.FieldByName(name)
		if !ok || f.PkgPath != "" {
			return nil, terr("no field %s in %v", name, d)
		}
		t.T = f.Type
		return t, nil
	case reflect.Map:
		if d.Key().Kind() == reflect.String && x.T.Kind() == reflect.Map {
			t.T = d.Elem()
			return t, nil
		}
	case reflect.Interface:
		if sc.AllowAny {
			t.T = AnyT
			return t, nil
		}
	}
	return nil, terr("no field %s in %v", name, x.T)
}

func Index(sc *Scope, x, i *Term) (*Term, error) {
	t := &Term{K: KIndex, Sub: []*Term{x, i}}
	if x.T == nil {
		return nil, terr("index of nil")
	}
	switch x.T.Kind() {
	case reflect.Slice:
		if IsInteger(i.T) || (sc.AllowAny && IsAny(i.T)) {
			t.T = x.T.Elem()
			return t, nil
		}
	case reflect.Map:
		if IsStr(i.T) && x.T.Key().Kind() == reflect.String {
			t.T = x.T.Elem()
			return t, nil
		}
	case reflect.Interface:
		if sc.AllowAny && (IsInteger(i.T) || IsStr(i.T)) {
			t.T = AnyT
			return t, nil
		}
	}
	return nil, terr("bad index %v[%v]", x.T, i.T)
}

func Slice(sc *Scope, x, from, to *Term) (*Term, error) {
	t := &Term{K: KSlice, Sub: []*Term{x, from, to}}
	if !(IsSlice(x.T) || IsStr(x.T)) {
		return nil, terr("cannot slice %v", x.T)
	}
	for _, b := range []*Term{from, to} {
		if b != nil && !IsInteger(b.T) {
			return nil, terr("non-integer slice bound %v", b.T)
		}
	}
	t.T = x.T
	return t, nil
}

// argOK implements the reference rule for passing arg to a parameter.
func argOK(arg *Term, in reflect.Type) bool {
	if isIntLiteral(arg) && IsNum(in) {
		// as a Go untyped constant: the value has to fit the parameter
		return intLiteralFits(arg, in)
	}
	if arg.T == NilT {
		switch in.Kind() {
		case reflect.Ptr, reflect.Interface, reflect.Slice, reflect.Map:
			return true
		}
		return false
	}
	return arg.T.AssignableTo(in)
}

// intLiteralFits: the value of a (signed) integer literal is representable in
// the numeric type t.
func intLiteralFits(a *Term, t reflect.Type) bool {
	neg := false
	for a.K == KUnary {
		if a.Op == "-" {
			neg = !neg
		}
		a = a.Sub[0]
	}
	v := int64(a.Int)
	if neg {
		v = -v
	}
	z := reflect.Zero(t)
	switch {
	case z.CanInt():
		return !z.OverflowInt(v)
	case z.CanUint():
		return v >= 0 && !z.OverflowUint(uint64(v))
	}
	return true
}

func isIntLiteral(a *Term) bool {
	if a.K == KInt {
		return true
	}
	if a.K == KUnary && (a.Op == "-" || a.Op == "+") {
		return isIntLiteral(a.Sub[0])
	}
	return false
}

func checkArgs(ft reflect.Type, skip int, args []*Term) error {
	n := ft.NumIn() - skip
	if ft.NumOut() != 1 {
		return terr("function must return one value")
	}
	if ft.IsVariadic() {
		if len(args) < n-1 {
			return terr("not enough arguments")
		}
	} else if len(args) != n {
		return terr("wrong arity")
	}
	for i, a := range args {
		var in reflect.Type
		if ft.IsVariadic() && i >= n-1 {
			in = ft.In(ft.NumIn() - 1).Elem()
		} else {
			in = ft.In(i + skip)
		}
		if !argOK(a, in) {
			return terr("argument %d: %v not assignable to %v", i, a.T, in)
		}
	}
	return nil
}

func Call(sc *Scope, name string, args ...*Term) (*Term, error) {
	t := &Term{K: KCall, Op: name, Sub: args}
	if f, ok := sc.Env.FieldByName(name); ok && f.PkgPath == "" && f.Type.Kind() == reflect.Func {
		if err := checkArgs(f.Type, 0, args); err != nil {
			return nil, err
		}
		t.T = f.Type.Out(0)
		return t, nil
	}
	if m, ok := sc.Env.MethodByName(name); ok {
		if err := checkArgs(m.Type, 1, args); err != nil {
			return nil, err
		}
		t.T = m.Type.Out(0)
		return t, nil
	}
	return nil, terr("unknown function %s", name)
}

func Method(sc *Scope, x *Term, name string, nilsafe bool, args ...*Term) (*Term, error) {
	t := &Term{K: KMethod, Op: name, Sub: append([]*Term{x}, args...), NilSafe: nilsafe}
	if x.T == nil || x.T == NilT {
		return nil, terr("method of nil")
	}
	if m, ok := x.T.MethodByName(name); ok && x.T.Kind() != reflect.Interface {
		if err := checkArgs(m.Type, 1, args); err != nil {
			return nil, err
		}
		t.T = m.Type.Out(0)
		if nilsafe && x.T.Kind() == reflect.Ptr {
			t.Unspec = true // ?.m() on a typed nil pointer is not settled
		}
		return t, nil
	}
	return nil, terr("type %v has no method %s", x.T, name)
}

var Builtins = []string{"len", "all", "none", "any", "one", "filter", "map", "count"}

// Builtin1 is len(x).
func Len(sc *Scope, x *Term) (*Term, error) {
	if IsSlice(x.T) || IsMap(x.T) || IsStr(x.T) || (sc.AllowAny && IsAny(x.T)) {
		return &Term{K: KBuiltin, Op: "len", Sub: []*Term{x}, T: IntT}, nil
	}
	return nil, terr("invalid argument for len: %v", x.T)
}

// ElemOf gives the element type a closure over coll sees.
func ElemOf(sc *Scope, coll *Term) (reflect.Type, error) {
	if IsSlice(coll.T) {
		return coll.T.Elem(), nil
	}
	if sc.AllowAny && IsAny(coll.T) {
		return AnyT, nil
	}
	return nil, terr("builtin takes only array, got %v", coll.T)
}

// Builtin2 builds op(coll, {body}); body must have been built in a scope with
// ElemOf(coll) pushed.
func Builtin2(sc *Scope, op string, coll, body *Term) (*Term, error) {
	et, err := ElemOf(sc, coll)
	if err != nil {
		return nil, err
	}
	t := &Term{K: KBuiltin, Op: op, Sub: []*Term{coll, body}}
	switch op {
	case "all", "none", "any", "one":
		if !IsBool(body.T) && !(sc.AllowAny && IsAny(body.T)) {
			return nil, terr("predicate must be bool, got %v", body.T)
		}
		t.T = BoolT
	case "count":
		if !IsBool(body.T) && !(sc.AllowAny && IsAny(body.T)) {
			return nil, terr("predicate must be bool, got %v", body.T)
		}
		t.T = IntT
	case "filter":
		if !IsBool(body.T) && !(sc.AllowAny && IsAny(body.T)) {
			return nil, terr("predicate must be bool, got %v", body.T)
		}
		if IsAny(coll.T) {
			t.T = ArrT
		} else {
			t.T = reflect.SliceOf(et)
		}
	case "map":
		bt := body.T
		if bt == NilT {
			bt = AnyT
		}
		t.T = reflect.SliceOf(bt)
	default:
		return nil, terr("unknown builtin %s", op)
	}
	return t, nil
}

func Cond(sc *Scope, c, a, b *Term) (*Term, error) {
	if !IsBool(c.T) && !(sc.AllowAny && IsAny(c.T)) {
		return nil, terr("non-bool condition %v", c.T)
	}
	t := &Term{K: KCond, Sub: []*Term{c, a, b}}
	switch {
	case a.T == NilT && b.T == NilT:
		t.T = NilT
	case a.T == NilT:
		t.T = b.T
	case b.T == NilT:
		t.T = a.T
	case a.T == b.T:
		t.T = a.T
	default:
		t.T = AnyT
	}
	return t, nil
}

func Array(elems ...*Term) *Term { return &Term{K: KArray, Sub: elems, T: ArrT} }

func Map(keys []string, vals []*Term) *Term {
	return &Term{K: KMap, Keys: keys, Sub: vals, T: MapT}
}

// Walk visits t and all sub-terms, parents first.
func (t *Term) Walk(f func(*Term)) {
	if t == nil {
		return
	}
	f(t)
	for _, s := range t.Sub {
		s.Walk(f)
	}
}

func (t *Term) Size() int {
	n := 0
	t.Walk(func(*Term) { n++ })
	return n
}

func (t *Term) HasUnspec() bool {
	u := false
	t.Walk(func(x *Term) {
		if x.Unspec {
			u = true
		}
	})
	return u
}

// HasElvis reports whether some conditional shares one term between its
// condition and its first arm (a ?: b).
func (t *Term) HasElvis() bool {
	u := false
	t.Walk(func(x *Term) {
		if x != nil && x.K == KCond && x.Sub[0] == x.Sub[1] {
			u = true
		}
	})
	return u
}

// HasAny reports whether some sub-term has static type interface{}.
func (t *Term) HasAny() bool {
	u := false
	t.Walk(func(x *Term) {
		if IsAny(x.T) {
			u = true
		}
	})
	return u
}

// ---------------------------------------------------------------------
// Printer

var binPrec = map[string]int{
	"or": 10, "||": 10, "and": 15, "&&": 15,
	"==": 20, "!=": 20, "<": 20, ">": 20, "<=": 20, ">=": 20, "in": 20, "not in": 20,
	"matches": 20, "contains": 20, "startsWith": 20, "endsWith": 20,
	"..": 25, "+": 30, "-": 30, "*": 60, "/": 60, "%": 60, "**": 70,
}

func BinPrec(op string) int { return binPrec[op] }

func unPrec(op string) int {
	if op == "not" || op == "!" {
		return 50
	}
	return 500
}

// PrintOpts controls the printer. Full = parenthesise every compound operand.
type PrintOpts struct {
	Full bool
	// Mark: the printer writes MarkByte immediately before the token at which
	// the library locates this node (identifier, literal, operator, member
	// name, opening bracket of index/slice/array/map, function name).
	Mark *Term
}

const MarkByte = '\x01'

func (t *Term) String() string { return Print(t, PrintOpts{}) }

func Print(t *Term, o PrintOpts) string {
	var sb strings.Builder
	pr(&sb, t, o)
	return sb.String()
}

func QuoteStr(s string) string {
	// double-quoted with escapes both lexer stages support
	var sb strings.Builder
	sb.WriteByte('"')
	for _, r := range s {
		switch {
		case r == '"':
			sb.WriteString(`\"`)
		case r == '\\':
			sb.WriteString(`\\`)
		case r == '\n':
			sb.WriteString(`\n`)
		case r == '\r':
			sb.WriteString(`\r`)
		case r == '\t':
			sb.WriteString(`\t`)
		case r < 0x20 || r == 0x7f:
			fmt.Fprintf(&sb, `\u%04x`, r)
		default:
			sb.WriteRune(r)
		}
	}
	sb.WriteByte('"')
	return sb.String()
}

func FloatText(f float64) string {
	s := strconv.FormatFloat(f, 'g', -1, 64)
	if !strings.ContainsAny(s, ".eE") {
		s += ".0"
	}
	return s
}

// operand context for parenthesisation
type pctx struct {
	level    int  // minimal binary precedence allowed without parentheses
	noNot    bool // a not/! unary must be parenthesised here
	noUnary  bool // any unary must be parenthesised (postfix object)
	noCond   bool // a conditional must be parenthesised
	noNumber bool // a number literal must be parenthesised (postfix object)
}

var top = pctx{}

func pr(sb *strings.Builder, t *Term, o PrintOpts) { prc(sb, t, o, top) }

func needParen(t *Term, c pctx, o PrintOpts) bool {
	switch t.K {
	case KBinary:
		if o.Full && c != top {
			return true
		}
		return binPrec[t.Op] < c.level || c.noUnary
	case KUnary:
		if o.Full && c != top {
			return true
		}
		if c.noUnary {
			return true
		}
		return c.noNot && unPrec(t.Op) == 50
	case KCond:
		return c.noCond
	case KInt, KFloat:
		return c.noNumber || (c.noUnary && (t.Int < 0 || t.Flt < 0))
	case KStr, KBool, KNil:
		// the parser gives literals no postfix: "a"[0] is a syntax error,
		// ("a")[0] is not
		return c.noNumber
	}
	return false
}

func prc(sb *strings.Builder, t *Term, o PrintOpts, c pctx) {
	if needParen(t, c, o) {
		sb.WriteByte('(')
		prc(sb, t, o, top)
		sb.WriteByte(')')
		return
	}
	inner := top // context inside brackets / arguments
	post := pctx{level: 1000, noUnary: true, noCond: true, noNumber: true}
	mark := func() {
		if o.Mark == t {
			sb.WriteByte(MarkByte)
		}
	}
	switch t.K {
	case KInt, KFloat, KStr, KBool, KNil, KIdent, KPointer, KUnary, KCall, KBuiltin, KArray, KMap:
		mark()
	}
	switch t.K {
	case KInt:
		if t.Int < 0 {
			// negative literals are written through unary minus
			sb.WriteString("-")
			sb.WriteString(strconv.FormatUint(uint64(-(t.Int+1))+1, 10))
		} else {
			sb.WriteString(strconv.Itoa(t.Int))
		}
	case KFloat:
		if t.Str != "" {
			sb.WriteString(t.Str)
		} else {
			sb.WriteString(FloatText(t.Flt))
		}
	case KStr:
		sb.WriteString(QuoteStr(t.Str))
	case KBool:
		if t.Bool {
			sb.WriteString("true")
		} else {
			sb.WriteString("false")
		}
	case KNil:
		sb.WriteString("nil")
	case KIdent:
		sb.WriteString(t.Op)
	case KPointer:
		sb.WriteString("#")
	case KUnary:
		sb.WriteString(t.Op)
		if t.Op == "not" {
			sb.WriteByte(' ')
		}
		// the operand is parsed with parseExpression(prec): binary operators of
		// at least that precedence would be absorbed, lower ones end it.
		oc := pctx{level: unPrec(t.Op), noCond: true}
		if unPrec(t.Op) == 500 {
			oc.noNot = true
		}
		if t.Op == "-" || t.Op == "+" {
			// avoid "--x" / "++x" reading as one token: the lexer has no such
			// tokens, but keep a space for readability of "- -x".
			if s := t.Sub[0]; s.K == KUnary && s.Op == t.Op {
				sb.WriteByte(' ')
			}
		}
		prc(sb, t.Sub[0], o, oc)
	case KBinary:
		p := binPrec[t.Op]
		lc := pctx{level: p, noCond: true}
		rc := pctx{level: p + 1, noCond: true}
		if t.Op == "**" {
			lc.level, rc.level = p+1, p
		}
		// A not/! operand followed (on its right) by an operator of precedence
		// >= 50 would absorb it.
		if p >= 50 {
			lc.noNot = true
			rc.noNot = true
		}
		prc(sb, t.Sub[0], o, lc)
		sb.WriteByte(' ')
		mark()
		sb.WriteString(t.Op)
		sb.WriteByte(' ')
		prc(sb, t.Sub[1], o, rc)
	case KField:
		if t.Short && t.Sub[0].K == KPointer && !t.NilSafe {
			if o.Mark == t.Sub[0] {
				sb.WriteByte(MarkByte)
			}
			sb.WriteString(".")
			mark()
			sb.WriteString(t.Op)
			return
		}
		prc(sb, t.Sub[0], o, post)
		if t.NilSafe {
			sb.WriteString("?.")
		} else {
			sb.WriteString(".")
		}
		mark()
		sb.WriteString(t.Op)
	case KMethod:
		prc(sb, t.Sub[0], o, post)
		if t.NilSafe {
			sb.WriteString("?.")
		} else {
			sb.WriteString(".")
		}
		mark()
		sb.WriteString(t.Op)
		sb.WriteByte('(')
		for i, a := range t.Sub[1:] {
			if i > 0 {
				sb.WriteString(", ")
			}
			prc(sb, a, o, inner)
		}
		sb.WriteByte(')')
	case KIndex:
		prc(sb, t.Sub[0], o, post)
		mark()
		sb.WriteByte('[')
		prc(sb, t.Sub[1], o, inner)
		sb.WriteByte(']')
	case KSlice:
		prc(sb, t.Sub[0], o, post)
		mark()
		sb.WriteByte('[')
		if t.Sub[1] != nil {
			// "a ? b : c" before ':' would confuse the slice colon
			prc(sb, t.Sub[1], o, pctx{noCond: true})
		}
		sb.WriteByte(':')
		if t.Sub[2] != nil {
			prc(sb, t.Sub[2], o, pctx{noCond: true})
		}
		sb.WriteByte(']')
	case KCall:
		sb.WriteString(t.Op)
		sb.WriteByte('(')
		for i, a := range t.Sub {
			if i > 0 {
				sb.WriteString(", ")
			}
			prc(sb, a, o, inner)
		}
		sb.WriteByte(')')
	case KBuiltin:
		sb.WriteString(t.Op)
		sb.WriteByte('(')
		prc(sb, t.Sub[0], o, inner)
		if len(t.Sub) > 1 {
			sb.WriteString(", {")
			prc(sb, t.Sub[1], o, inner)
			sb.WriteString("}")
		}
		sb.WriteByte(')')
	case KCond:
		prc(sb, t.Sub[0], o, pctx{noCond: true})
		if t.Sub[0] == t.Sub[1] {
			// a ?: b (the condition is also the first arm)
			sb.WriteString(" ?: ")
			prc(sb, t.Sub[2], o, inner)
			return
		}
		// the library locates a conditional at its question mark
		sb.WriteString(" ")
		mark()
		sb.WriteString("? ")
		prc(sb, t.Sub[1], o, inner)
		sb.WriteString(" : ")
		prc(sb, t.Sub[2], o, inner)
	case KArray:
		sb.WriteByte('[')
		for i, a := range t.Sub {
			if i > 0 {
				sb.WriteString(", ")
			}
			prc(sb, a, o, inner)
		}
		sb.WriteByte(']')
	case KMap:
		sb.WriteByte('{')
		for i, a := range t.Sub {
			if i > 0 {
				sb.WriteString(", ")
			}
			sb.WriteString(QuoteStr(t.Keys[i]))
			sb.WriteString(": ")
			prc(sb, a, o, inner)
		}
		sb.WriteByte('}')
	}
}

// FoldInt folds a constant integer expression (literals, unary + -, binary
// + - * / %) the way the optimizer may; ok=false if t is not such a constant
// or a division by zero occurs inside it.
func FoldInt(t *Term) (v int, ok bool) {
	switch t.K {
	case KInt:
		return t.Int, true
	case KUnary:
		x, ok := FoldInt(t.Sub[0])
		if !ok {
			return 0, false
		}
		switch t.Op {
		case "-":
			return -x, true
		case "+":
			return x, true
		}
	case KBinary:
		a, ok1 := FoldInt(t.Sub[0])
		b, ok2 := FoldInt(t.Sub[1])
		if !ok1 || !ok2 {
			return 0, false
		}
		switch t.Op {
		case "+":
			return a + b, true
		case "-":
			return a - b, true
		case "*":
			return a * b, true
		case "/":
			if b == 0 {
				return 0, false
			}
			if b == -1 {
				return -a, true
			}
			return a / b, true
		case "%":
			if b == 0 {
				return 0, false
			}
			if b == -1 {
				return 0, true
			}
			return a % b, true
		}
	}
	return 0, false
}

// HasConstDivZero reports whether t contains an integer / or % whose operands
// are constant and whose right operand folds to 0 (the one thing the
// optimizer may reject at compile time).
func (t *Term) HasConstDivZero() bool {
	found := false
	t.Walk(func(x *Term) {
		if x != nil && x.K == KBinary && (x.Op == "/" || x.Op == "%") {
			if _, ok := FoldInt(x.Sub[0]); ok {
				if b, ok := FoldInt(x.Sub[1]); ok && b == 0 {
					found = true
				}
			}
		}
	})
	return found
}
