package term

import (
	"fmt"
	"reflect"

	"verif/internal/envs"
	"verif/internal/runner"
)

// Gen is the type-directed random generator: Gen.Of(t, n) returns a term of
// static type t (by the reference rules) with roughly n nodes.
type Gen struct {
	R  *runner.Rng
	Sc *Scope
	// AllowAny admits interface{}-typed sub-terms.
	AllowAny bool
	// NoCalls suppresses function and method calls.
	NoCalls bool
	// PureOnly restricts to constructs that cannot fail for value reasons
	// (no division, index, slice, nil-prone access, regexps from variables).
	PureOnly bool
	// SmallInts keeps integer literals tiny (used where ranges are built).
	SmallInts bool
	// NoIntLit replaces integer literals by identifiers (set while generating
	// arguments of non-int numeric parameters, where the meaning of literal
	// arithmetic is not settled by the definition).
	NoIntLit bool
	// NoElvis keeps `a ?: b` out (its condition is evaluated twice by the
	// library: recorded under C01/C10, and an obstacle where one sub-term has
	// to be marked or counted once).
	NoElvis bool
}

func NewGen(r *runner.Rng, allowAny bool) *Gen {
	return &Gen{R: r, Sc: &Scope{Env: envs.EnvType, AllowAny: allowAny}, AllowAny: allowAny}
}

func must(t *Term, err error) *Term {
	if err != nil {
		panic(fmt.Sprintf("HARNESS-BUG generator built an ill-typed term: %v", err))
	}
	return t
}

func (g *Gen) ident(name string) *Term { return must(Ident(g.Sc, name)) }

var numIdents = map[reflect.Kind][]string{
	reflect.Uint: {"U"}, reflect.Uint8: {"U8"}, reflect.Uint16: {"U16"}, reflect.Uint32: {"U32"}, reflect.Uint64: {"U64"},
	reflect.Int: {"A", "B", "C", "I", "Z"}, reflect.Int8: {"I8"}, reflect.Int16: {"I16"}, reflect.Int32: {"I32"}, reflect.Int64: {"I64"},
	reflect.Float32: {"F32"}, reflect.Float64: {"X", "Y", "F64"},
}

var NumKinds = []reflect.Kind{reflect.Uint, reflect.Uint8, reflect.Uint16, reflect.Uint32, reflect.Uint64, reflect.Int, reflect.Int8, reflect.Int16, reflect.Int32, reflect.Int64, reflect.Float32, reflect.Float64}

func KindType(k reflect.Kind) reflect.Type {
	switch k {
	case reflect.Uint:
		return reflect.TypeOf(uint(0))
	case reflect.Uint8:
		return reflect.TypeOf(uint8(0))
	case reflect.Uint16:
		return reflect.TypeOf(uint16(0))
	case reflect.Uint32:
		return reflect.TypeOf(uint32(0))
	case reflect.Uint64:
		return reflect.TypeOf(uint64(0))
	case reflect.Int:
		return IntT
	case reflect.Int8:
		return reflect.TypeOf(int8(0))
	case reflect.Int16:
		return reflect.TypeOf(int16(0))
	case reflect.Int32:
		return reflect.TypeOf(int32(0))
	case reflect.Int64:
		return reflect.TypeOf(int64(0))
	case reflect.Float32:
		return reflect.TypeOf(float32(0))
	case reflect.Float64:
		return FloatT
	}
	return nil
}

func (g *Gen) intLit() *Term {
	r := g.R
	if g.NoIntLit {
		return g.ident(r.Pick(numIdents[reflect.Int]))
	}
	if g.SmallInts {
		return Int(r.Intn(6))
	}
	switch r.Intn(10) {
	case 0:
		return Int(0)
	case 1:
		return Int(1)
	case 2:
		return Int(r.Intn(100000))
	case 3:
		return Int([]int{127, 128, 255, 256, 65535, 2147483647, 2147483648, 9223372036854775807}[r.Intn(8)])
	default:
		return Int(r.Intn(12))
	}
}

func (g *Gen) floatLit() *Term {
	r := g.R
	fs := []float64{0, 0.5, 1.5, 2.25, 10, 0.1, 3.75, 100.125, 1e3, 2.5e-3}
	return Float(fs[r.Intn(len(fs))])
}

func (g *Gen) strLit() *Term {
	ws := []string{"", "a", "b", "ab", "abc", "foo", "bar", "héllo", "世界", "x y", "^a", "o$", "a.b", "😀"}
	return Str(ws[g.R.Intn(len(ws))])
}

// elemTerm returns "#" when the innermost closure element has type t.
func (g *Gen) elemOfType(t reflect.Type) *Term {
	if n := len(g.Sc.Elems); n > 0 && g.Sc.Elems[n-1] == t {
		return must(Pointer(g.Sc))
	}
	return nil
}

// Of generates a term of static type t.
func (g *Gen) Of(t reflect.Type, n int) *Term {
	if n < 1 {
		n = 1
	}
	// inside a closure, prefer using the element now and then
	if len(g.Sc.Elems) > 0 && g.R.Chance(1, 3) {
		if e := g.elemVia(t, n); e != nil {
			return e
		}
	}
	switch {
	case t == IntT:
		return g.genInt(n)
	case IsNum(t):
		return g.genNum(t, n)
	case t == StrT:
		return g.genStr(n)
	case t == BoolT:
		return g.genBool(n)
	case t == IntsT:
		return g.genInts(n)
	case t == FloatsT:
		return g.genFloats(n)
	case t == StrsT:
		return g.genStrs(n)
	case t == ItemsT:
		return g.genItems(n)
	case t == PItemsT:
		return g.ident("PItems")
	case t == ItemT:
		return g.genItem(n)
	case t == PItemT:
		return g.genPItem(n)
	case t == ArrT:
		return g.genArr(n)
	case t == MapT:
		return g.genMap(n)
	case t == MIT:
		return g.ident("MI")
	case t == AnyT:
		return g.genAny(n)
	}
	panic(fmt.Sprintf("HARNESS-BUG generator: no production for %v", t))
}

// elemVia builds a term of type t from the innermost closure element.
func (g *Gen) elemVia(t reflect.Type, n int) *Term {
	et := g.Sc.Elems[len(g.Sc.Elems)-1]
	p := must(Pointer(g.Sc))
	if et == t {
		return p
	}
	fld := func(name string, short bool) *Term {
		f := must(Field(g.Sc, p, name, false))
		f.Short = short
		return f
	}
	switch et {
	case ItemT:
		switch t {
		case IntT:
			if !g.NoCalls && g.R.Chance(1, 4) {
				return must(Method(g.Sc, p, "Double", false))
			}
			return fld("ID", g.R.Bool())
		case StrT:
			return fld("Name", g.R.Bool())
		case FloatT:
			return fld("Score", g.R.Bool())
		case BoolT:
			return fld("Flag", g.R.Bool())
		case IntsT:
			return fld("Vals", g.R.Bool())
		case StrsT:
			return fld("Tags", g.R.Bool())
		}
	case PItemT:
		if g.PureOnly {
			return nil
		}
		switch t {
		case IntT:
			return fld("ID", g.R.Bool())
		case StrT:
			return fld("Name", g.R.Bool())
		case BoolT:
			if g.R.Bool() {
				return must(Binary(g.Sc, "==", p, Nil()))
			}
			return fld("Flag", false)
		}
	case IntT:
		if t == BoolT {
			return must(Binary(g.Sc, g.R.Pick([]string{"<", ">", "==", "!=", "<=", ">="}), p, g.genInt(n-2)))
		}
		if t == FloatT {
			return must(Binary(g.Sc, g.R.Pick([]string{"+", "*", "-"}), p, g.genNum(FloatT, n-2)))
		}
	case FloatT:
		if t == BoolT {
			return must(Binary(g.Sc, g.R.Pick([]string{"<", ">", "<=", ">="}), p, g.genNum(FloatT, n-2)))
		}
	case StrT:
		if t == BoolT {
			return must(Binary(g.Sc, g.R.Pick([]string{"==", "contains", "startsWith", "<"}), p, g.genStr(n-2)))
		}
		if t == IntT {
			return must(Len(g.Sc, p))
		}
	case AnyT:
		if t == BoolT && g.AllowAny {
			return must(Binary(g.Sc, g.R.Pick([]string{"==", "!="}), p, pickTerm(g.R, []*Term{Nil(), Int(1), Str("a"), Bool(true)})))
		}
	}
	return nil
}

func (g *Gen) cond(t reflect.Type, n int) *Term {
	c := g.genBool(n / 3)
	a := g.Of(t, n/3)
	b := g.Of(t, n/3)
	return must(Cond(g.Sc, c, a, b))
}

func (g *Gen) smallIndex(n int) *Term {
	if n <= 1 || g.R.Chance(2, 3) {
		return Int(g.R.Intn(4))
	}
	return g.genInt(n)
}

func (g *Gen) genInt(n int) *Term {
	r := g.R
	if n <= 1 {
		if r.Chance(1, 2) {
			return g.intLit()
		}
		return g.ident(r.Pick(numIdents[reflect.Int]))
	}
	for {
		switch r.Intn(22) {
		case 0, 1, 2:
			op := r.Pick([]string{"+", "-", "*"})
			return must(Binary(g.Sc, op, g.genInt((n-1)/2), g.genInt((n-1)/2)))
		case 3:
			if g.PureOnly {
				continue
			}
			op := r.Pick([]string{"/", "%"})
			return must(Binary(g.Sc, op, g.genInt((n-1)/2), g.genInt((n-1)/2)))
		case 4:
			return must(Unary(g.Sc, r.Pick([]string{"-", "+"}), g.genInt(n-1)))
		case 5:
			// len of something
			switch r.Intn(5) {
			case 0:
				return must(Len(g.Sc, g.genStr(n-1)))
			case 1:
				return must(Len(g.Sc, g.genInts(n-1)))
			case 2:
				return must(Len(g.Sc, g.genArr(n-1)))
			case 3:
				return must(Len(g.Sc, g.ident(r.Pick([]string{"MI", "MA"}))))
			default:
				return must(Len(g.Sc, g.Of(pickType(r, []reflect.Type{ItemsT, StrsT, FloatsT, PItemsT}), n-1)))
			}
		case 6:
			return g.builtin2("count", n)
		case 7:
			if g.PureOnly {
				continue
			}
			return must(Index(g.Sc, g.genInts(n/2), g.smallIndex(n/2)))
		case 8:
			if g.PureOnly {
				return must(Index(g.Sc, g.ident("MI"), g.strLit()))
			}
			return must(Index(g.Sc, g.ident("MI"), g.genStr(n-2)))
		case 9:
			return must(Field(g.Sc, g.genItem(n-1), "ID", false))
		case 10:
			if g.PureOnly {
				continue
			}
			return must(Field(g.Sc, g.genPItem(n-1), "ID", r.Chance(1, 3)))
		case 11:
			if g.NoCalls {
				continue
			}
			if r.Bool() {
				return must(Method(g.Sc, g.genItem(n-1), "Double", false))
			}
			return must(Method(g.Sc, g.genItem(n/2), "Plus", false, g.genInt(n/2)))
		case 12, 13:
			if g.NoCalls {
				continue
			}
			switch r.Intn(9) {
			case 7:
				return must(Call(g.Sc, "AddA", g.genInt(n-1)))
			case 8:
				return must(Call(g.Sc, "FnEnv", g.genInt(n-1)))
			case 0:
				return must(Call(g.Sc, "FnI", g.genInt(n-1)))
			case 1:
				return must(Call(g.Sc, "FnII", g.genInt((n-1)/2), g.genInt((n-1)/2)))
			case 2:
				return must(Call(g.Sc, "Inc", g.genInt(n-1)))
			case 3:
				if r.Bool() {
					return must(Call(g.Sc, "FnU8", Int(r.Intn(256))))
				}
				return must(Call(g.Sc, "FnU8", g.ident("U8")))
			case 4:
				return must(Call(g.Sc, "FnInts", g.genIntsDyn(n-1)))
			case 5:
				return must(Call(g.Sc, "FnItem", g.genItem(n-1)))
			default:
				k := r.Intn(4)
				var args []*Term
				for i := 0; i < k; i++ {
					args = append(args, g.genInt((n-1)/(k+1)))
				}
				return must(Call(g.Sc, "FnVar", args...))
			}
		case 14:
			return g.cond(IntT, n)
		case 15:
			if g.R.Chance(1, 2) {
				return g.intLit()
			}
			return g.ident(r.Pick(numIdents[reflect.Int]))
		default:
			op := r.Pick([]string{"+", "-", "*"})
			return must(Binary(g.Sc, op, g.genInt((n-1)/2), g.genInt((n-1)/2)))
		}
	}
}

// genNum generates a term of numeric kind t (not int).
func (g *Gen) genNum(t reflect.Type, n int) *Term {
	r := g.R
	k := t.Kind()
	leaf := func() *Term {
		if k == reflect.Float64 && r.Chance(1, 2) {
			return g.floatLit()
		}
		return g.ident(r.Pick(numIdents[k]))
	}
	if n <= 1 {
		return leaf()
	}
	for {
		switch r.Intn(10) {
		case 0, 1, 2, 3:
			// arithmetic whose higher-ranked operand has kind t
			op := r.Pick([]string{"+", "-", "*"})
			if !g.PureOnly && r.Chance(1, 4) {
				op = "/"
				if IsInteger(t) && r.Bool() {
					op = "%"
				}
			}
			// other operand: any kind of rank <= Rank(t)
			var lowers []reflect.Kind
			for _, kk := range NumKinds {
				if Rank(KindType(kk)) <= Rank(t) {
					lowers = append(lowers, kk)
				}
			}
			ot := KindType(lowers[r.Intn(len(lowers))])
			a := g.Of(t, (n-1)/2)
			b := g.Of(ot, (n-1)/2)
			if r.Bool() {
				a, b = b, a
			}
			if op == "%" && (!IsInteger(a.T) || !IsInteger(b.T)) {
				op = "*"
			}
			return must(Binary(g.Sc, op, a, b))
		case 4:
			return must(Unary(g.Sc, "-", g.genNum(t, n-1)))
		case 5:
			if k == reflect.Float64 {
				a := g.Of(KindType(NumKinds[r.Intn(len(NumKinds))]), (n-1)/2)
				b := g.Of(KindType(NumKinds[r.Intn(len(NumKinds))]), (n-1)/2)
				return must(Binary(g.Sc, "**", a, b))
			}
		case 6:
			if k == reflect.Float64 && !g.NoCalls {
				save := g.NoIntLit
				g.NoIntLit = true
				var c *Term
				switch r.Intn(4) {
				case 0:
					c = must(Call(g.Sc, "FnF", g.genNum(FloatT, n-1)))
				case 1:
					c = must(Call(g.Sc, "FnF", Int(r.Intn(50))))
				case 2:
					c = must(Call(g.Sc, "Half", g.genNum(FloatT, n-1)))
				default:
					c = must(Call(g.Sc, "FnF32", g.ident("F32")))
				}
				g.NoIntLit = save
				return c
			}
			if k == reflect.Int64 && !g.NoCalls {
				save := g.NoIntLit
				g.NoIntLit = true
				c := must(Call(g.Sc, "FnI64", g.genNum(t, n-1)))
				g.NoIntLit = save
				return c
			}
		case 7:
			if k == reflect.Float64 {
				if !g.PureOnly && r.Bool() {
					return must(Index(g.Sc, g.genFloats(n/2), g.smallIndex(n/2)))
				}
				return must(Field(g.Sc, g.genItem(n-1), "Score", false))
			}
		case 8:
			return g.cond(t, n)
		default:
			return leaf()
		}
	}
}

func (g *Gen) genStr(n int) *Term {
	r := g.R
	if n <= 1 {
		if r.Bool() {
			return g.strLit()
		}
		return g.ident(r.Pick([]string{"S", "T"}))
	}
	for {
		switch r.Intn(10) {
		case 0, 1, 2:
			return must(Binary(g.Sc, "+", g.genStr((n-1)/2), g.genStr((n-1)/2)))
		case 3:
			if g.NoCalls {
				continue
			}
			if r.Bool() {
				return must(Call(g.Sc, "FnS", g.genStr(n-1)))
			}
			return must(Call(g.Sc, "Cat", g.genStr((n-1)/2), g.genStr((n-1)/2)))
		case 4:
			if g.PureOnly {
				continue
			}
			return must(Index(g.Sc, g.genStrs(n/2), g.smallIndex(n/2)))
		case 5:
			return must(Field(g.Sc, g.genItem(n-1), "Name", false))
		case 6:
			if g.NoCalls || g.PureOnly {
				continue
			}
			return must(Method(g.Sc, g.genPItem(n-1), "Label", false))
		case 7:
			return g.sliceOf(g.genStr(n/2), n/2)
		case 8:
			return g.cond(StrT, n)
		default:
			if r.Bool() {
				return g.strLit()
			}
			return g.ident(r.Pick([]string{"S", "T"}))
		}
	}
}

// sliceOf wraps x in a slice expression with literal or small bounds; one
// bound in five is a small call (operands are evaluated left to right: the
// lower bound's calls precede the upper bound's).
func (g *Gen) sliceOf(x *Term, n int) *Term {
	r := g.R
	bound := func() *Term {
		if g.PureOnly {
			if r.Chance(1, 4) {
				return nil
			}
			return Int(r.Intn(5))
		}
		switch r.Intn(5) {
		case 0:
			return nil
		case 1:
			return g.ident(r.Pick([]string{"A", "B", "Z"}))
		case 2:
			if !g.NoCalls {
				return must(Call(g.Sc, "FnI", Int(r.Intn(4))))
			}
			return Int(r.Intn(5))
		default:
			return Int(r.Intn(5))
		}
	}
	a, b := bound(), bound()
	return must(Slice(g.Sc, x, a, b))
}

var cmpOps = []string{"==", "!=", "<", ">", "<=", ">="}

func (g *Gen) genBool(n int) *Term {
	r := g.R
	if n <= 1 {
		switch r.Intn(3) {
		case 0:
			return Bool(r.Bool())
		default:
			return g.ident(r.Pick([]string{"P", "Q"}))
		}
	}
	for {
		switch r.Intn(24) {
		case 0, 1, 2:
			op := r.Pick([]string{"and", "or", "&&", "||"})
			return must(Binary(g.Sc, op, g.genBool((n-1)/2), g.genBool((n-1)/2)))
		case 3:
			if r.Chance(1, 4) && !g.NoElvis {
				// a ?: b (one term in the condition and the first-arm slot)
				a := g.genBool((n - 1) / 2)
				return must(Cond(g.Sc, a, a, g.genBool((n-1)/2)))
			}
			return must(Unary(g.Sc, r.Pick([]string{"not", "!"}), g.genBool(n-1)))
		case 4, 5:
			a := g.Of(KindType(NumKinds[r.Intn(len(NumKinds))]), (n-1)/2)
			b := g.Of(KindType(NumKinds[r.Intn(len(NumKinds))]), (n-1)/2)
			return must(Binary(g.Sc, r.Pick(cmpOps), a, b))
		case 6:
			return must(Binary(g.Sc, r.Pick(cmpOps), g.genInt((n-1)/2), g.genInt((n-1)/2)))
		case 7:
			return must(Binary(g.Sc, r.Pick(cmpOps), g.genStr((n-1)/2), g.genStr((n-1)/2)))
		case 8:
			return must(Binary(g.Sc, r.Pick([]string{"==", "!="}), g.genBool((n-1)/2), g.genBool((n-1)/2)))
		case 9:
			if g.PureOnly {
				continue
			}
			x := g.genPItem(n - 2)
			if r.Bool() {
				return must(Binary(g.Sc, r.Pick([]string{"==", "!="}), x, Nil()))
			}
			return must(Binary(g.Sc, r.Pick([]string{"==", "!="}), Nil(), x))
		case 10:
			op := r.Pick([]string{"contains", "startsWith", "endsWith"})
			return must(Binary(g.Sc, op, g.genStr((n-1)/2), g.genStr((n-1)/2)))
		case 11:
			// matches with a literal or dynamic pattern
			if r.Chance(2, 3) {
				pats := []string{"^a", "o$", "a.b", "[a-c]+", "", "^$", "(foo|bar)", "世"}
				return must(Binary(g.Sc, "matches", g.genStr(n-2), Str(r.Pick(pats))))
			}
			if g.PureOnly {
				continue
			}
			return must(Binary(g.Sc, "matches", g.genStr(n-2), g.ident(r.Pick([]string{"Re", "Re", "BadRe", "S"}))))
		case 12, 13:
			op := r.Pick([]string{"in", "not in"})
			switch r.Intn(7) {
			case 0:
				return must(Binary(g.Sc, op, g.genInt(n/2), g.genInts(n/2)))
			case 1:
				return must(Binary(g.Sc, op, g.genStr(n/2), g.genStrs(n/2)))
			case 2:
				return must(Binary(g.Sc, op, g.genStr(n-2), g.ident(r.Pick([]string{"MI", "MA"}))))
			case 3:
				nm := r.Pick([]string{"ID", "Name", "Missing", "Score", "id"})
				return must(Binary(g.Sc, op, Str(nm), g.ident("It")))
			case 4:
				// literal array of ints / strings / mixed
				return must(Binary(g.Sc, op, g.genInt(n/2), g.litArray(n/2, 0)))
			case 5:
				return must(Binary(g.Sc, op, g.genStr(n/2), g.litArray(n/2, 1)))
			default:
				coll := g.genInts(n / 2)
				if r.Bool() {
					coll = g.litArray(n/2, 0)
				}
				return must(Binary(g.Sc, op, g.Of(KindType(NumKinds[r.Intn(len(NumKinds))]), n/2), coll))
			}
		case 14, 15:
			return g.builtin2(r.Pick([]string{"all", "any", "none", "one"}), n)
		case 16:
			if g.NoCalls {
				continue
			}
			if r.Bool() {
				return must(Call(g.Sc, "FnB", g.genBool(n-1)))
			}
			return must(Call(g.Sc, "IsPos", g.genInt(n-1)))
		case 17:
			return must(Field(g.Sc, g.genItem(n-1), "Flag", false))
		case 18:
			return g.cond(BoolT, n)
		case 19:
			if !g.AllowAny {
				continue
			}
			// dynamic operands
			switch r.Intn(3) {
			case 0:
				return must(Binary(g.Sc, r.Pick([]string{"==", "!="}), g.genAny(n/2), pickTerm(g.R, []*Term{Int(r.Intn(4)), g.strLit(), Nil(), g.ident("A"), g.ident("S")})))
			case 1:
				return must(Binary(g.Sc, r.Pick([]string{"in", "not in"}), g.genAny(n/2), pickTerm(g.R, []*Term{g.ident("Ints"), g.ident("Strs"), g.ident("Anys")})))
			default:
				return must(Binary(g.Sc, r.Pick([]string{"in", "not in"}), pickTerm(g.R, []*Term{g.genInt(n / 2), g.genStr(n / 2), Nil(), g.genBool(n / 2)}), g.ident("Anys")))
			}
		case 20:
			return must(Binary(g.Sc, r.Pick(cmpOps), g.genNum(FloatT, (n-1)/2), g.genInt((n-1)/2)))
		default:
			op := r.Pick([]string{"and", "or"})
			return must(Binary(g.Sc, op, g.genBool((n-1)/2), g.genBool((n-1)/2)))
		}
	}
}

// litArray generates a literal array: flavour 0 ints, 1 strings, 2 mixed.
func (g *Gen) litArray(n int, flavour int) *Term {
	r := g.R
	k := r.Intn(5)
	var el []*Term
	for i := 0; i < k; i++ {
		switch flavour {
		case 0:
			if r.Chance(3, 4) {
				el = append(el, g.intLit())
			} else {
				el = append(el, g.genInt(n/(k+1)))
			}
		case 1:
			if r.Chance(3, 4) {
				el = append(el, g.strLit())
			} else {
				el = append(el, g.genStr(n/(k+1)))
			}
		default:
			ts := []reflect.Type{IntT, StrT, BoolT, FloatT}
			el = append(el, g.Of(ts[r.Intn(len(ts))], n/(k+1)))
		}
	}
	return Array(el...)
}

// builtin2 generates op(coll, {body}).
func (g *Gen) builtin2(op string, n int) *Term {
	r := g.R
	cts := []reflect.Type{IntsT, IntsT, StrsT, FloatsT, ItemsT}
	if !g.PureOnly {
		cts = append(cts, PItemsT)
	}
	if g.AllowAny {
		cts = append(cts, ArrT)
	}
	ct := cts[r.Intn(len(cts))]
	coll := g.Of(ct, n/3)
	return g.builtinOver(op, coll, n-coll.Size(), nil)
}

// builtinOver builds op(coll, {body}) with a fresh body of the right type; for
// "map" the body type is bodyT (random when nil).
func (g *Gen) builtinOver(op string, coll *Term, n int, bodyT reflect.Type) *Term {
	et := must2(ElemOf(g.Sc, coll))
	g.Sc.Elems = append(g.Sc.Elems, et)
	var body *Term
	if op == "map" {
		if bodyT == nil {
			bodyT = pickType(g.R, []reflect.Type{IntT, FloatT, StrT, BoolT})
		}
		body = g.Of(bodyT, n)
	} else {
		body = g.genBool(n)
	}
	g.Sc.Elems = g.Sc.Elems[:len(g.Sc.Elems)-1]
	return must(Builtin2(g.Sc, op, coll, body))
}

func must2(t reflect.Type, err error) reflect.Type {
	if err != nil {
		panic(fmt.Sprintf("HARNESS-BUG generator: %v", err))
	}
	return t
}

func (g *Gen) genInts(n int) *Term {
	r := g.R
	if n <= 1 {
		return g.ident(r.Pick([]string{"Ints", "Ints2", "Empty"}))
	}
	for {
		switch r.Intn(10) {
		case 0, 1:
			// ranges with small bounds so that they stay small
			save := g.SmallInts
			g.SmallInts = true
			a, b := g.rangeBound(n/2), g.rangeBound(n/2)
			g.SmallInts = save
			return must(Binary(g.Sc, "..", a, b))
		case 2:
			return g.builtinOver("filter", g.genInts(n/3), n-n/3, nil)
		case 3:
			ct := pickType(r, []reflect.Type{IntsT, StrsT, ItemsT, FloatsT})
			return g.builtinOver("map", g.Of(ct, n/3), n-n/3, IntT)
		case 4:
			return g.sliceOf(g.genInts(n/2), n/2)
		case 5:
			if g.NoCalls {
				continue
			}
			return must(Call(g.Sc, "MkInts", Int(r.Intn(8))))
		case 6:
			return must(Field(g.Sc, g.genItem(n-1), "Vals", false))
		case 7:
			return g.cond(IntsT, n)
		default:
			return g.ident(r.Pick([]string{"Ints", "Ints2", "Empty"}))
		}
	}
}

func (g *Gen) rangeBound(n int) *Term {
	r := g.R
	if g.PureOnly {
		// bounds taken from the environment may span 2^63 elements (budget)
		if r.Chance(1, 4) {
			return must(Len(g.Sc, g.ident(r.Pick([]string{"Ints", "Strs", "S"}))))
		}
		return Int(r.Intn(8))
	}
	switch r.Intn(6) {
	case 0:
		return g.ident(r.Pick([]string{"A", "B", "Z"}))
	case 1:
		return must(Unary(g.Sc, "-", Int(r.Intn(4))))
	case 2:
		return must(Binary(g.Sc, r.Pick([]string{"+", "-"}), g.ident(r.Pick([]string{"A", "Z"})), Int(r.Intn(5))))
	case 3:
		return must(Len(g.Sc, g.ident(r.Pick([]string{"Ints", "Strs", "S"}))))
	default:
		return Int(r.Intn(8))
	}
}

func (g *Gen) genFloats(n int) *Term {
	r := g.R
	if n <= 2 {
		return g.ident("Floats")
	}
	switch r.Intn(5) {
	case 0:
		return g.builtinOver("filter", g.ident("Floats"), n-1, nil)
	case 1:
		ct := pickType(r, []reflect.Type{IntsT, FloatsT, ItemsT})
		return g.builtinOver("map", g.Of(ct, n/3), n-n/3, FloatT)
	case 2:
		return g.sliceOf(g.ident("Floats"), n-1)
	default:
		return g.ident("Floats")
	}
}

func (g *Gen) genStrs(n int) *Term {
	r := g.R
	if n <= 2 {
		return g.ident("Strs")
	}
	switch r.Intn(6) {
	case 0:
		return g.builtinOver("filter", g.ident("Strs"), n-1, nil)
	case 1:
		ct := pickType(r, []reflect.Type{IntsT, StrsT, ItemsT})
		return g.builtinOver("map", g.Of(ct, n/3), n-n/3, StrT)
	case 2:
		return g.sliceOf(g.ident("Strs"), n-1)
	case 3:
		return must(Field(g.Sc, g.genItem(n-1), "Tags", false))
	default:
		return g.ident("Strs")
	}
}

func (g *Gen) genItems(n int) *Term {
	r := g.R
	if n <= 2 {
		return g.ident("Items")
	}
	switch r.Intn(4) {
	case 0:
		return g.builtinOver("filter", g.ident("Items"), n-1, nil)
	case 1:
		return g.sliceOf(g.ident("Items"), n-1)
	default:
		return g.ident("Items")
	}
}

func (g *Gen) genItem(n int) *Term {
	r := g.R
	if e := g.elemOfType(ItemT); e != nil && r.Bool() {
		return e
	}
	if n <= 2 || g.PureOnly || r.Chance(2, 3) {
		return g.ident("It")
	}
	return must(Index(g.Sc, g.genItems(n/2), g.smallIndex(n/2)))
}

func (g *Gen) genPItem(n int) *Term {
	r := g.R
	if e := g.elemOfType(PItemT); e != nil && r.Bool() {
		return e
	}
	for {
		switch r.Intn(8) {
		case 0:
			return g.ident("NilIt")
		case 1:
			if g.PureOnly {
				continue
			}
			return must(Index(g.Sc, g.ident("PItems"), g.smallIndex(n-2)))
		case 2:
			return must(Field(g.Sc, g.genItem(n-1), "Next", false))
		case 3:
			if n < 3 || g.PureOnly {
				continue
			}
			return must(Field(g.Sc, g.genPItem(n-1), "Next", r.Bool()))
		case 4:
			if g.NoCalls {
				continue
			}
			return must(Call(g.Sc, "MkItem", g.genInt(n-1)))
		default:
			return g.ident("PIt")
		}
	}
}

func (g *Gen) genArr(n int) *Term {
	r := g.R
	if g.AllowAny && r.Chance(1, 4) {
		return g.ident("Anys")
	}
	return g.litArray(n, r.Intn(3))
}

func (g *Gen) genMap(n int) *Term {
	r := g.R
	if g.AllowAny && r.Chance(1, 4) {
		return g.ident("MA")
	}
	k := r.Intn(4)
	keys := []string{"a", "b", "c", "dd", "e f", "世"}
	var ks []string
	var vs []*Term
	start := r.Intn(len(keys))
	for i := 0; i < k; i++ {
		ks = append(ks, keys[(start+i)%len(keys)])
		ts := []reflect.Type{IntT, StrT, BoolT, FloatT}
		vs = append(vs, g.Of(ts[r.Intn(len(ts))], n/(k+1)))
	}
	return Map(ks, vs)
}

func (g *Gen) genAny(n int) *Term {
	r := g.R
	if !g.AllowAny {
		panic("HARNESS-BUG genAny without AllowAny")
	}
	for {
		switch r.Intn(8) {
		case 0:
			return g.ident(r.Pick([]string{"AnyI", "AnyS", "AnyN"}))
		case 1:
			return must(Index(g.Sc, g.ident("MA"), g.strLit()))
		case 2:
			if g.PureOnly {
				continue
			}
			return must(Index(g.Sc, g.ident("Anys"), g.smallIndex(n-1)))
		case 3:
			if g.NoCalls {
				continue
			}
			ts := []reflect.Type{IntT, StrT, BoolT, FloatT}
			return must(Call(g.Sc, "FnAny", g.Of(ts[r.Intn(len(ts))], n-1)))
		case 4:
			if g.NoCalls {
				continue
			}
			k := r.Intn(3)
			var args []*Term
			ts := []reflect.Type{IntT, StrT, BoolT, FloatT}
			for i := 0; i < k; i++ {
				args = append(args, g.Of(ts[r.Intn(len(ts))], n/(k+1)))
			}
			// Tuple returns (and so keeps) the argument slice it was handed
			return must(Call(g.Sc, r.Pick([]string{"Fast", "Tuple"}), args...))
		case 5:
			if !g.NoCalls && r.Bool() {
				// nil as an argument next to another argument (reflect call path)
				ts := []reflect.Type{IntT, StrT, BoolT, FloatT}
				x := g.Of(ts[r.Intn(len(ts))], n-2)
				switch r.Intn(3) {
				case 0:
					return must(Call(g.Sc, "EqAny", x, Nil()))
				case 1:
					return must(Call(g.Sc, "EqAny", Nil(), x))
				default:
					return must(Call(g.Sc, "EqAny", x, g.Of(ts[r.Intn(len(ts))], 1)))
				}
			}
			// conditional with arms of different types
			c := g.genBool(n / 3)
			return must(Cond(g.Sc, c, g.genInt(n/3), g.genStr(n/3)))
		case 6:
			return must(Field(g.Sc, g.ident("MA"), r.Pick([]string{"a", "b", "foo"}), false))
		default:
			return g.ident(r.Pick([]string{"AnyI", "AnyS"}))
		}
	}
}

// Top generates a term of a random result type.
func (g *Gen) Top(n int) *Term {
	ts := []reflect.Type{IntT, IntT, BoolT, BoolT, BoolT, StrT, FloatT, IntsT, StrsT, FloatsT, ArrT, MapT, ItemsT, PItemT, ItemT,
		KindType(reflect.Uint8), KindType(reflect.Int64), KindType(reflect.Uint64), KindType(reflect.Int8), KindType(reflect.Float32), KindType(reflect.Uint), KindType(reflect.Int32), KindType(reflect.Uint16), KindType(reflect.Int16), KindType(reflect.Uint32)}
	if g.AllowAny {
		ts = append(ts, AnyT, AnyT)
	}
	return g.Of(ts[g.R.Intn(len(ts))], n)
}

func pickTerm(r *runner.Rng, xs []*Term) *Term { return xs[r.Intn(len(xs))] }

func pickType(r *runner.Rng, xs []reflect.Type) reflect.Type { return xs[r.Intn(len(xs))] }

// genIntsDyn generates a []int-typed term whose run-time value really is a
// []int: results of map/filter have static type []T but are built as
// []interface{} (recorded under C03), so they are not passed to []int
// parameters by the other properties' workloads.
func (g *Gen) genIntsDyn(n int) *Term {
	r := g.R
	switch r.Intn(6) {
	case 0:
		save := g.SmallInts
		g.SmallInts = true
		a, b := g.rangeBound(n/2), g.rangeBound(n/2)
		g.SmallInts = save
		return must(Binary(g.Sc, "..", a, b))
	case 1:
		if !g.NoCalls {
			return must(Call(g.Sc, "MkInts", Int(r.Intn(8))))
		}
	case 2:
		return must(Field(g.Sc, g.genItem(n-1), "Vals", false))
	case 3:
		return g.sliceOf(g.ident(r.Pick([]string{"Ints", "Ints2"})), n-1)
	}
	return g.ident(r.Pick([]string{"Ints", "Ints2", "Empty"}))
}
