package term

import (
	"strings"
	"unicode"
	"unicode/utf8"

	"verif/internal/runner"
)

// Tok is a token of harness-printed source text.
type Tok struct {
	Text  string
	Start int  // byte offset in the flat text
	Glued bool // no whitespace before it in the flat text
}

var layoutOps = []string{"?.", "..", "**", "==", "!=", "<=", ">=", "&&", "||", "?:"}

// Tokenize splits text printed by Print (marker bytes removed) into tokens. It
// knows only the token shapes the printer emits.
func Tokenize(flat string) []Tok {
	var out []Tok
	i := 0
	ws := false
	for i < len(flat) {
		r, w := utf8.DecodeRuneInString(flat[i:])
		switch {
		case unicode.IsSpace(r):
			i += w
			ws = true
			continue
		case r == '"' || r == '\'':
			j := i + 1
			for j < len(flat) && flat[j] != byte(r) {
				if flat[j] == '\\' {
					j++
				}
				j++
			}
			j++
			if j > len(flat) {
				j = len(flat)
			}
			out = append(out, Tok{flat[i:j], i, !ws})
			i = j
		case r >= '0' && r <= '9':
			j := i
			for j < len(flat) {
				c := flat[j]
				if c >= '0' && c <= '9' || c >= 'a' && c <= 'z' || c >= 'A' && c <= 'Z' || c == '_' || c == '.' {
					// a second dot ends the number ("1..2" is never printed, but be safe)
					if c == '.' && j+1 < len(flat) && flat[j+1] == '.' {
						break
					}
					// exponent sign
					j++
					if (c == 'e' || c == 'E') && j < len(flat) && (flat[j] == '+' || flat[j] == '-') && !strings.HasPrefix(flat[i:], "0x") && !strings.HasPrefix(flat[i:], "0X") {
						j++
					}
					continue
				}
				break
			}
			out = append(out, Tok{flat[i:j], i, !ws})
			i = j
		case r == '_' || r == '$' || unicode.IsLetter(r):
			j := i
			for j < len(flat) {
				rr, ww := utf8.DecodeRuneInString(flat[j:])
				if rr == '_' || rr == '$' || unicode.IsLetter(rr) || unicode.IsDigit(rr) {
					j += ww
					continue
				}
				break
			}
			word := flat[i:j]
			// "not in" is one operator
			if word == "in" && len(out) > 0 && out[len(out)-1].Text == "not" {
				out[len(out)-1].Text = "not in"
				i = j
				ws = false
				continue
			}
			out = append(out, Tok{word, i, !ws})
			i = j
		default:
			matched := false
			for _, op := range layoutOps {
				if strings.HasPrefix(flat[i:], op) {
					out = append(out, Tok{op, i, !ws})
					i += len(op)
					matched = true
					break
				}
			}
			if !matched {
				out = append(out, Tok{flat[i : i+w], i, !ws})
				i += w
			}
		}
		ws = false
	}
	return out
}

var layoutSeps = []string{" ", " ", "  ", "\t", "\n", "\n", "\r\n", " \n  ", "\n\t", "\n\n", " \t "}

// Layout re-spaces the tokens of flat with random whitespace (spaces, tabs,
// LF, CRLF) and returns the new text together with the (line, column) of every
// token (line 1-based, column 0-based in runes since the last LF).
func Layout(r *runner.Rng, toks []Tok, multiline bool) (src string, lines, cols []int) {
	var sb strings.Builder
	line, col := 1, 0
	emit := func(s string) {
		for _, ru := range s {
			if ru == '\n' {
				line++
				col = 0
			} else {
				col++
			}
		}
		sb.WriteString(s)
	}
	for i, t := range toks {
		if i > 0 || r.Chance(1, 6) {
			sep := " "
			if multiline {
				sep = layoutSeps[r.Intn(len(layoutSeps))]
			}
			if t.Glued && i > 0 {
				// no whitespace in the flat text: keep glued most of the time
				if r.Chance(3, 4) || !multiline {
					sep = ""
				}
			}
			if i == 0 && !multiline {
				sep = ""
			}
			emit(sep)
		}
		lines = append(lines, line)
		cols = append(cols, col)
		if t.Text == "not in" && multiline && r.Bool() {
			// the two words of the operator may be separated by any blank
			emit("not")
			emit(layoutSeps[r.Intn(len(layoutSeps))])
			emit("in")
			continue
		}
		emit(t.Text)
	}
	if r.Chance(1, 6) && multiline {
		emit(layoutSeps[r.Intn(len(layoutSeps))])
	}
	return sb.String(), lines, cols
}

// SplitMark removes the marker byte from text printed with PrintOpts.Mark and
// returns the flat text and the byte offset the marker stood at (-1 if none).
func SplitMark(marked string) (flat string, off int) {
	off = strings.IndexByte(marked, MarkByte)
	if off < 0 {
		return marked, -1
	}
	return marked[:off] + marked[off+1:], off
}

// TokenAt returns the index of the token starting at byte offset off.
func TokenAt(toks []Tok, off int) int {
	for i, t := range toks {
		if t.Start == off {
			return i
		}
	}
	return -1
}
