package term

import (
	"reflect"

	"verif/internal/envs"
)

// Enumerate calls f for every reference-well-typed term with exactly 1..max
// nodes over a reduced alphabet. Closures are enumerated to depth 1 with the
// element types int, string and Item. The enumeration order is deterministic.
type Enum struct {
	Sc     *Scope
	tables map[string][][]*Term // key: element type name ("" = no closure)
}

var enumLeavesIdent = []string{"A", "Z", "X", "S", "P", "Ints", "Strs", "It", "PIt", "NilIt", "MI", "U8", "I64", "Items"}

func NewEnum(allowAny bool) *Enum {
	return &Enum{Sc: &Scope{Env: envs.EnvType, AllowAny: allowAny}, tables: map[string][][]*Term{}}
}

func (e *Enum) leaves(elem reflect.Type) []*Term {
	var out []*Term
	out = append(out, Int(0), Int(1), Int(2), Float(1.5), Str("a"), Str(""), Bool(true), Bool(false), Nil())
	for _, n := range enumLeavesIdent {
		if t, err := Ident(e.Sc, n); err == nil {
			out = append(out, t)
		}
	}
	if e.Sc.AllowAny {
		for _, n := range []string{"AnyI", "AnyS", "AnyN"} {
			if t, err := Ident(e.Sc, n); err == nil {
				out = append(out, t)
			}
		}
	}
	if elem != nil {
		sc := &Scope{Env: e.Sc.Env, AllowAny: e.Sc.AllowAny, Elems: []reflect.Type{elem}}
		p, _ := Pointer(sc)
		out = append(out, p)
	}
	return out
}

var enumUnary = []string{"not", "-", "+"}
var enumFields = []string{"ID", "Name", "Next", "Flag", "Vals"}

// Table returns terms by node count (index n = terms with n nodes) in the
// scope whose innermost closure element is elem (nil = top level).
func (e *Enum) Table(elem reflect.Type, max int) [][]*Term {
	key := ""
	if elem != nil {
		key = elem.String()
	}
	tab := e.tables[key]
	if tab == nil {
		tab = [][]*Term{nil, e.leaves(elem)}
	}
	sc := &Scope{Env: e.Sc.Env, AllowAny: e.Sc.AllowAny}
	if elem != nil {
		sc.Elems = []reflect.Type{elem}
	}
	for n := len(tab); n <= max; n++ {
		var out []*Term
		add := func(t *Term, err error) {
			if err == nil {
				out = append(out, t)
			}
		}
		// unary, field, len, method without args, call with one arg
		for _, x := range tab[n-1] {
			for _, op := range enumUnary {
				add(Unary(sc, op, x))
			}
			for _, f := range enumFields {
				add(Field(sc, x, f, false))
				if x.T != nil && x.T.Kind() == reflect.Ptr {
					add(Field(sc, x, f, true))
				}
			}
			add(Len(sc, x))
			add(Method(sc, x, "Double", false))
			add(Method(sc, x, "Label", false))
			for _, fn := range []string{"FnI", "FnS", "FnF", "FnB", "Inc", "IsPos", "FnU8", "FnInts", "MkItem"} {
				add(Call(sc, fn, x))
			}
			add(Array(x), nil)
			add(Map([]string{"k"}, []*Term{x}), nil)
			add(Slice(sc, x, nil, nil))
		}
		// binary, index, slice with one bound, two-element array, calls with two args
		for i := 1; i <= n-2; i++ {
			j := n - 1 - i
			for _, l := range tab[i] {
				for _, r := range tab[j] {
					for _, op := range BinOps {
						add(Binary(sc, op, l, r))
					}
					add(Index(sc, l, r))
					add(Slice(sc, l, r, nil))
					add(Slice(sc, l, nil, r))
					add(Call(sc, "FnII", l, r))
					add(Call(sc, "Cat", l, r))
					if e.Sc.AllowAny && (l.K == KNil || r.K == KNil || n <= 3) {
						add(Call(sc, "EqAny", l, r))
					}
					add(Method(sc, l, "Plus", false, r))
					if n <= 4 {
						add(Array(l, r), nil)
					}
				}
			}
		}
		// conditional and two-bound slice
		for i := 1; i <= n-3; i++ {
			for j := 1; j <= n-2-i; j++ {
				k := n - 1 - i - j
				if k < 1 {
					continue
				}
				for _, c := range tab[i] {
					if !IsBool(c.T) && !IsSlice(c.T) && !IsStr(c.T) {
						continue
					}
					for _, a := range tab[j] {
						for _, b := range tab[k] {
							add(Cond(sc, c, a, b))
							add(Slice(sc, c, a, b))
						}
					}
				}
			}
		}
		// builtins with closures (only from top level: depth-1 closures)
		if elem == nil {
			for i := 1; i <= n-2; i++ {
				j := n - 1 - i
				for _, coll := range tab[i] {
					et, err := ElemOf(sc, coll)
					if err != nil {
						continue
					}
					if et != IntT && et != StrT && et != ItemT {
						continue
					}
					bodies := e.Table(et, j)[j]
					bsc := &Scope{Env: sc.Env, AllowAny: sc.AllowAny}
					for _, body := range bodies {
						for _, op := range Builtins[1:] {
							add(Builtin2(bsc, op, coll, body))
						}
					}
				}
			}
		}
		tab = append(tab, out)
	}
	e.tables[key] = tab
	return tab
}
