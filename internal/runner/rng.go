package runner

import "math"

// Rng is a SplitMix64 stream. All randomness in the harness comes from
// streams derived from (seed, property, phase, index), never from time.
type Rng struct{ s uint64 }

func mix(z uint64) uint64 {
	z += 0x9e3779b97f4a7c15
	z = (z ^ (z >> 30)) * 0xbf58476d1ce4e5b9
	z = (z ^ (z >> 27)) * 0x94d049bb133111eb
	return z ^ (z >> 31)
}

func HashString(s string) uint64 {
	h := uint64(14695981039346656037)
	for i := 0; i < len(s); i++ {
		h ^= uint64(s[i])
		h *= 1099511628211
	}
	return mix(h)
}

func NewRng(parts ...uint64) *Rng {
	s := uint64(0x243f6a8885a308d3)
	for _, p := range parts {
		s = mix(s ^ mix(p))
	}
	return &Rng{s}
}

func (r *Rng) U64() uint64 {
	r.s += 0x9e3779b97f4a7c15
	z := r.s
	z = (z ^ (z >> 30)) * 0xbf58476d1ce4e5b9
	z = (z ^ (z >> 27)) * 0x94d049bb133111eb
	return z ^ (z >> 31)
}

// Intn returns a value in [0,n). n must be > 0.
func (r *Rng) Intn(n int) int {
	if n <= 1 {
		return 0
	}
	return int(r.U64() % uint64(n))
}

// Range returns a value in [lo,hi].
func (r *Rng) Range(lo, hi int) int {
	if hi <= lo {
		return lo
	}
	return lo + r.Intn(hi-lo+1)
}

func (r *Rng) Bool() bool { return r.U64()&1 == 1 }

// Chance returns true with probability num/den.
func (r *Rng) Chance(num, den int) bool { return r.Intn(den) < num }

func (r *Rng) Float() float64 { return float64(r.U64()>>11) / float64(1<<53) }

func (r *Rng) Pick(xs []string) string { return xs[r.Intn(len(xs))] }

func (r *Rng) PickInt(xs []int) int { return xs[r.Intn(len(xs))] }

// Fork derives an independent stream.
func (r *Rng) Fork(tag uint64) *Rng { return NewRng(r.U64(), tag) }

// Float64Any returns a float64 with uniformly random bits that is finite.
func (r *Rng) FiniteFloatBits() float64 {
	for {
		f := math.Float64frombits(r.U64())
		if !math.IsNaN(f) && !math.IsInf(f, 0) {
			return f
		}
	}
}
