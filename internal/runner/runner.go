// Package runner drives one property check: it shards a deterministic case list
// over child processes, watches them (death, hang), collects what the monitors
// observed and writes evidence, replay files and the verdict.
package runner

import (
	"encoding/binary"
	"encoding/json"
	"fmt"
	"os"
	"os/exec"
	"path/filepath"
	"sort"
	"strconv"
	"strings"
	"sync"
	"sync/atomic"
	"syscall"
	"time"
)

// Phase is a deterministic list of cases: case idx of a phase is a pure
// function of (seed, tier, idx).
type Phase struct {
	Name string
	// N gives the number of cases for a tier.
	N func(tier string) uint64
	// Run executes case idx and reports through c.
	Run func(c *Ctx, idx uint64)
	// Serial phases are run by shard 0 only, idx in order (used for
	// enumerations that carry state and for -race stress phases).
	Serial bool
	// Everywhere phases are run completely by every shard (used to compare
	// what separate processes compute for the same case).
	Everywhere bool
}

type Check struct {
	ID          string
	Level       string // evidence level
	Rule        string
	Assumptions []string
	Phases      []Phase
	// Shards is the number of worker processes (default 16).
	Shards int
	// Init runs once in every worker before any case.
	Init func(c *Ctx)
	// Finish runs once in every worker after the last case.
	Finish func(c *Ctx)
	// Post inspects the aggregate and returns reasons why the run is
	// inconclusive (e.g. an oracle that never saw the events it needs).
	Post func(a *Aggregate) []string
	// WorkerEnv returns extra environment variables for the worker processes
	// (dir is the check's work directory).
	WorkerEnv func(dir string) []string
	// HangIsViolation: a case that does not terminate is a violation of the
	// property itself (C04) rather than an inconclusive run.
	HangIsViolation bool
	// DeathIsViolation: a worker killed by a fatal runtime error is a
	// violation of the property (C04) rather than an inconclusive run.
	DeathIsViolation bool
}

var registry = map[string]*Check{}

func Register(c *Check) { registry[c.ID] = c }

func Lookup(id string) *Check { return registry[id] }

func IDs() []string {
	var ids []string
	for id := range registry {
		ids = append(ids, id)
	}
	sort.Strings(ids)
	return ids
}

type Violation struct {
	Property string                 `json:"property"`
	Sig      string                 `json:"sig"`
	What     string                 `json:"what"`
	Phase    string                 `json:"phase"`
	Idx      uint64                 `json:"idx"`
	Seed     uint64                 `json:"seed"`
	Tier     string                 `json:"tier"`
	Case     map[string]interface{} `json:"case"`
}

// Ctx is the per-worker context handed to phases.
type Ctx struct {
	Prop   string
	Tier   string
	Seed   uint64
	Shard  int
	Shards int
	Replay bool

	// R is the stream of the current case.
	R *Rng

	phase string
	idx   uint64

	Evals      int64
	Counters   map[string]int64
	Sets       map[string]map[string]struct{}
	distinct   map[uint64]struct{}
	distinctOv bool
	Samples    []interface{}
	Violations []Violation
	Inconcl    []string
	sigSeen    map[string]int

	prog []byte // mmap'ed progress page
}

// quickScale multiplies the quick-tier size of the sampled phases of the
// checks whose cases are cheap, so that every quick run takes 10-30 s.
var quickScale = map[string]uint64{"C02": 2, "C03": 2, "C06": 4, "C07": 2, "C09": 2, "C10": 5, "C11": 3, "C12": 2, "C13": 4, "C14": 5, "C16": 3, "C17": 4}

const maxDistinct = 4 << 20
const progSize = 8192

func (c *Ctx) Thorough() bool { return c.Tier == "thorough" }

// Begin records the case about to be executed in the shared progress page so
// that the parent can name it if this process dies or hangs.
func (c *Ctx) Begin(desc string) {
	if c.prog == nil {
		return
	}
	binary.LittleEndian.PutUint64(c.prog[0:], c.idx)
	binary.LittleEndian.PutUint64(c.prog[8:], binary.LittleEndian.Uint64(c.prog[8:])+1)
	n := len(desc)
	if n > progSize-64 {
		n = progSize - 64
	}
	binary.LittleEndian.PutUint32(c.prog[16:], uint32(n))
	copy(c.prog[64:], desc[:n])
	pn := len(c.phase)
	if pn > 40 {
		pn = 40
	}
	c.prog[20] = byte(pn)
	copy(c.prog[21:], c.phase[:pn])
}

func (c *Ctx) Eval(n int) { c.Evals += int64(n) }

// LibEnter / LibLeave bracket a call into the library under test (the Safe*
// wrappers of the checks use them). The nesting count is mirrored in the
// progress page, so that the parent can tell a case that is stuck inside a
// library call from one that is stuck in the harness's own code.
var (
	libDepth int32
	libPage  []byte
)

func LibEnter() {
	if atomic.AddInt32(&libDepth, 1) > 0 && libPage != nil {
		libPage[62] = 1
	}
}

func LibLeave() {
	if atomic.AddInt32(&libDepth, -1) <= 0 && libPage != nil {
		libPage[62] = 0
	}
}

func (c *Ctx) Count(key string, n int64) { c.Counters[key] += n }

func (c *Ctx) SetAdd(set, item string) {
	m := c.Sets[set]
	if m == nil {
		m = map[string]struct{}{}
		c.Sets[set] = m
	}
	if len(m) < 4096 {
		m[item] = struct{}{}
	}
}

// Distinct records a non-trivial case key.
func (c *Ctx) Distinct(key string) {
	if len(c.distinct) >= maxDistinct {
		c.distinctOv = true
		return
	}
	c.distinct[HashString(key)] = struct{}{}
}

func (c *Ctx) Sample(v interface{}) {
	if len(c.Samples) < 6 {
		c.Samples = append(c.Samples, v)
	}
}

// SampleEvery keeps a sample for the first case and then sparsely.
func (c *Ctx) WantSample() bool {
	return len(c.Samples) < 6 && (c.idx < 2 || c.idx%97 == 0)
}

func (c *Ctx) Inconclusive(why string) {
	if len(c.Inconcl) < 50 {
		c.Inconcl = append(c.Inconcl, fmt.Sprintf("%s[%d]: %s", c.phase, c.idx, why))
	}
}

// Violate reports a violation. sig is the narrow signature of the failing
// site/input class used for known-finding matching; at most 5 witnesses per
// signature are kept per worker.
func (c *Ctx) Violate(sig, what string, cas map[string]interface{}) {
	c.Counters["violations_raw"]++
	c.sigSeen[sig]++
	if c.sigSeen[sig] > 5 {
		return
	}
	c.Violations = append(c.Violations, Violation{
		Property: c.Prop, Sig: sig, What: what, Phase: c.phase, Idx: c.idx,
		Seed: c.Seed, Tier: c.Tier, Case: cas,
	})
}

func (c *Ctx) Phase() string { return c.phase }
func (c *Ctx) Idx() uint64   { return c.idx }

type shardResult struct {
	Shard      int                 `json:"shard"`
	Evals      int64               `json:"evals"`
	Counters   map[string]int64    `json:"counters"`
	Sets       map[string][]string `json:"sets"`
	DistinctOv bool                `json:"distinct_overflow"`
	Samples    []interface{}       `json:"samples"`
	Violations []Violation         `json:"violations"`
	Inconcl    []string            `json:"inconclusive"`
	Done       bool                `json:"done"`
}

type Aggregate struct {
	Evals      int64
	Counters   map[string]int64
	Sets       map[string]map[string]struct{}
	Distinct   int
	DistinctOv bool
	Samples    []interface{}
	Violations []Violation
	Inconcl    []string
}

func WorkDir(prop string) string {
	return filepath.Join(root(), ".work", prop)
}

func root() string {
	if r := os.Getenv("VERIF_ROOT"); r != "" {
		return r
	}
	return "/verif"
}

func newCtx(ck *Check, tier string, seed uint64, shard, shards int) *Ctx {
	return &Ctx{
		Prop: ck.ID, Tier: tier, Seed: seed, Shard: shard, Shards: shards,
		Counters: map[string]int64{}, Sets: map[string]map[string]struct{}{},
		distinct: map[uint64]struct{}{}, sigSeen: map[string]int{},
	}
}

// NewProbeCtx returns a context that is not attached to a worker process
// (used by the native fuzz stage and by tests).
func NewProbeCtx(prop string, seed uint64) *Ctx {
	c := newCtx(&Check{ID: prop}, "thorough", seed, 0, 1)
	c.phase = "probe"
	c.R = NewRng(seed)
	return c
}

func (c *Ctx) runCase(ck *Check, pi int, idx uint64) {
	ph := &ck.Phases[pi]
	c.phase = ph.Name
	c.idx = idx
	c.R = NewRng(c.Seed, HashString(ck.ID), HashString(ph.Name), idx)
	ph.Run(c, idx)
}

// RunWorker executes the cases of one shard and writes its result file.
// RunSingle executes exactly one case in this process (used by the parent to
// confirm a suspected hang on an otherwise idle worker).
func RunSingle(ck *Check, tier string, seed uint64, phase int, idx uint64) int {
	c := newCtx(ck, tier, seed, 0, 1)
	if ck.Init != nil {
		ck.Init(c)
	}
	if phase < 0 || phase >= len(ck.Phases) {
		return 2
	}
	c.runCase(ck, phase, idx)
	return 0
}

func RunWorker(ck *Check, tier string, seed uint64, shard, shards int, fromPhase int, fromIdx uint64) int {
	c := newCtx(ck, tier, seed, shard, shards)
	dir := WorkDir(ck.ID)
	os.MkdirAll(dir, 0o755)
	pf := filepath.Join(dir, fmt.Sprintf("progress_%d", shard))
	if f, err := os.OpenFile(pf, os.O_RDWR|os.O_CREATE, 0o644); err == nil {
		f.Truncate(progSize)
		if m, err := syscall.Mmap(int(f.Fd()), 0, progSize, syscall.PROT_READ|syscall.PROT_WRITE, syscall.MAP_SHARED); err == nil {
			c.prog = m
			for i := range m[:64] {
				m[i] = 0
			}
			libPage = m
		}
		f.Close()
	}
	resFile := filepath.Join(dir, fmt.Sprintf("shard_%d_%d_%d.json", shard, fromPhase, fromIdx))
	if ck.Init != nil {
		c.phase = "init"
		ck.Init(c)
	}
	for pi := fromPhase; pi < len(ck.Phases); pi++ {
		ph := &ck.Phases[pi]
		n := ph.N(tier)
		if k := quickScale[ck.ID]; tier == "quick" && k > 1 {
			// phases whose size grows with the tier run k times their base
			// quick size (fixed-size phases are enumerations)
			if full := ph.N("thorough"); full > n {
				n *= k
				if n > full {
					n = full
				}
			}
		}
		start := uint64(0)
		if pi == fromPhase {
			start = fromIdx
		}
		if ph.Serial {
			if shard != 0 {
				continue
			}
			for idx := start; idx < n; idx++ {
				c.runCase(ck, pi, idx)
			}
			continue
		}
		for idx := start; idx < n; idx++ {
			if !ph.Everywhere && int(idx%uint64(shards)) != shard {
				continue
			}
			c.runCase(ck, pi, idx)
		}
	}
	if ck.Finish != nil {
		c.phase = "finish"
		ck.Finish(c)
	}
	writeShard(c, resFile, dir, true)
	return 0
}

func writeShard(c *Ctx, resFile, dir string, done bool) {
	res := shardResult{Shard: c.Shard, Evals: c.Evals, Counters: c.Counters, Sets: map[string][]string{},
		DistinctOv: c.distinctOv, Samples: c.Samples, Violations: c.Violations, Inconcl: c.Inconcl, Done: done}
	for k, m := range c.Sets {
		for it := range m {
			res.Sets[k] = append(res.Sets[k], it)
		}
		sort.Strings(res.Sets[k])
	}
	b, err := json.Marshal(res)
	if err != nil {
		// A sample or case that cannot be marshalled must not lose the run.
		res.Samples = []interface{}{fmt.Sprintf("unmarshalable samples: %v", err)}
		for i := range res.Violations {
			res.Violations[i].Case = map[string]interface{}{"text": fmt.Sprintf("%v", res.Violations[i].Case)}
		}
		b, _ = json.Marshal(res)
	}
	os.WriteFile(resFile, b, 0o644)
	// distinct hashes
	hb := make([]byte, 8*len(c.distinct))
	i := 0
	for h := range c.distinct {
		binary.LittleEndian.PutUint64(hb[i:], h)
		i += 8
	}
	os.WriteFile(strings.TrimSuffix(resFile, ".json")+".hashes", hb, 0o644)
}

// RunReplay re-executes one case in-process.
func RunReplay(ck *Check, path string) int {
	b, err := os.ReadFile(path)
	if err != nil {
		fmt.Println("cannot read replay:", err)
		return 2
	}
	var v Violation
	if err := json.Unmarshal(b, &v); err != nil {
		fmt.Println("bad replay file:", err)
		return 2
	}
	c := newCtx(ck, v.Tier, v.Seed, 0, 1)
	c.Replay = true
	if ck.Init != nil {
		ck.Init(c)
	}
	pi := -1
	for i := range ck.Phases {
		if ck.Phases[i].Name == v.Phase {
			pi = i
		}
	}
	if pi < 0 {
		fmt.Println("replay names unknown phase", v.Phase)
		return 2
	}
	c.runCase(ck, pi, v.Idx)
	if ck.Finish != nil {
		ck.Finish(c)
	}
	if len(c.Violations) == 0 {
		fmt.Printf("replay: case %s[%d] seed=%d holds now\n", v.Phase, v.Idx, v.Seed)
		return 0
	}
	for _, w := range c.Violations {
		jb, _ := json.MarshalIndent(w, "", "  ")
		fmt.Println(string(jb))
		fmt.Printf("VIOLATION property=%s replay=%s\n", ck.ID, path)
	}
	return 1
}

type progress struct {
	idx, ticks uint64
	phase      string
	desc       string
	inLib      bool
}

func readProgress(dir string, shard int) (p progress, ok bool) {
	b, err := os.ReadFile(filepath.Join(dir, fmt.Sprintf("progress_%d", shard)))
	if err != nil || len(b) < progSize {
		return p, false
	}
	p.idx = binary.LittleEndian.Uint64(b[0:])
	p.ticks = binary.LittleEndian.Uint64(b[8:])
	n := int(binary.LittleEndian.Uint32(b[16:]))
	pn := int(b[20])
	if pn > 40 {
		pn = 40
	}
	p.phase = string(b[21 : 21+pn])
	p.inLib = b[62] != 0
	if n > progSize-64 {
		n = progSize - 64
	}
	p.desc = string(b[64 : 64+n])
	return p, true
}

// RunParent runs all shards, aggregates, writes evidence, prints the verdict
// and returns the exit code (0 held, 1 violation, 2 inconclusive).
func RunParent(ck *Check, tier string, seed uint64, self string) int {
	t0 := time.Now()
	dir := WorkDir(ck.ID)
	os.RemoveAll(dir)
	os.MkdirAll(dir, 0o755)
	shards := ck.Shards
	if shards == 0 {
		shards = 16
	}
	if s := os.Getenv("VERIF_SHARDS"); s != "" {
		if n, err := strconv.Atoi(s); err == nil && n > 0 {
			shards = n
		}
	}
	hangLimit := 300 * time.Second
	if s := os.Getenv("VERIF_HANG_S"); s != "" {
		if n, err := strconv.Atoi(s); err == nil && n > 0 {
			hangLimit = time.Duration(n) * time.Second
		}
	}

	var mu sync.Mutex
	var extraViol []Violation
	var inconcl []string
	var slow []string
	var resFiles []string
	// Once one case of this run has been confirmed not to terminate, the run
	// can no longer end as "held": later suspects get a short limit and no
	// confirmation, so that the rest of the exploration still finishes.
	var hangSeen int32

	var wg sync.WaitGroup
	for sh := 0; sh < shards; sh++ {
		wg.Add(1)
		go func(sh int) {
			defer wg.Done()
			fromPhase, fromIdx := 0, uint64(0)
			for attempt := 0; attempt < 12; attempt++ {
				resFile := filepath.Join(dir, fmt.Sprintf("shard_%d_%d_%d.json", sh, fromPhase, fromIdx))
				logFile := filepath.Join(dir, fmt.Sprintf("log_%d_%d", sh, attempt))
				lf, _ := os.Create(logFile)
				cmd := exec.Command(self, "worker", ck.ID, "--tier", tier, "--seed", strconv.FormatUint(seed, 10),
					"--shard", strconv.Itoa(sh), "--shards", strconv.Itoa(shards),
					"--from-phase", strconv.Itoa(fromPhase), "--from-idx", strconv.FormatUint(fromIdx, 10))
				cmd.Stdout = lf
				cmd.Stderr = lf
				cmd.Env = append(os.Environ(), "GOMAXPROCS=2", "GOTRACEBACK=single")
				if ck.WorkerEnv != nil {
					cmd.Env = append(cmd.Env, ck.WorkerEnv(dir)...)
				}
				if err := cmd.Start(); err != nil {
					mu.Lock()
					inconcl = append(inconcl, fmt.Sprintf("shard %d: cannot start worker: %v", sh, err))
					mu.Unlock()
					lf.Close()
					return
				}
				done := make(chan error, 1)
				go func() { done <- cmd.Wait() }()
				var lastTicks uint64
				lastChange := time.Now()
				hung := false
				var werr error
			wait:
				for {
					select {
					case werr = <-done:
						break wait
					case <-time.After(2 * time.Second):
						if p, ok := readProgress(dir, sh); ok {
							if p.ticks != lastTicks {
								lastTicks = p.ticks
								lastChange = time.Now()
							} else if lim := hangLimit; p.ticks > 0 && (time.Since(lastChange) > lim || (atomic.LoadInt32(&hangSeen) != 0 && time.Since(lastChange) > lim/10)) {
								hung = true
								cmd.Process.Signal(syscall.SIGQUIT)
								time.Sleep(500 * time.Millisecond)
								cmd.Process.Kill()
								werr = <-done
								break wait
							}
						}
					}
				}
				lf.Close()
				if _, err := os.Stat(resFile); err == nil && werr == nil && !hung {
					mu.Lock()
					resFiles = append(resFiles, resFile)
					mu.Unlock()
					return
				}
				// The worker died or hung: the progress page names the case.
				p, ok := readProgress(dir, sh)
				tail := tailFile(logFile, 40)
				mu.Lock()
				if !ok || p.ticks == 0 {
					inconcl = append(inconcl, fmt.Sprintf("shard %d: worker failed before its first case: %v\n%s", sh, werr, tail))
					mu.Unlock()
					return
				}
				kind := "worker died (fatal error)"
				isViol := ck.DeathIsViolation
				if hung {
					kind = fmt.Sprintf("case did not terminate within %v", hangLimit)
					isViol = ck.HangIsViolation
					// A loaded machine can make a slow case look like a hang: the
					// case is re-run alone, with twice the limit, before it
					// may be called one.
					pi := 0
					for i := range ck.Phases {
						if ck.Phases[i].Name == p.phase {
							pi = i
						}
					}
					mu.Unlock()
					confirmed := true
					if atomic.LoadInt32(&hangSeen) != 0 {
						kind = "case made no progress (not re-run: another case of this run was already confirmed not to terminate)"
						isViol = false
					} else if confirmed = confirmHang(self, ck, tier, seed, pi, p.idx, 2*hangLimit); confirmed {
						atomic.StoreInt32(&hangSeen, 1)
						if p.inLib {
							// stuck inside a call into the library, alone, for
							// twice the limit: the call does not return
							kind = fmt.Sprintf("a call into the library did not return within %v (case re-run alone in a fresh process)", 2*hangLimit)
							isViol = true
						}
					}
					mu.Lock()
					if !confirmed {
						slow = append(slow, fmt.Sprintf("%s[%d] needed more than %v under load but terminates when run alone", p.phase, p.idx, hangLimit))
						mu.Unlock()
						fromPhase, fromIdx = pi, p.idx+1
						continue
					}
				}
				if isViol {
					sig := "fatal:" + firstFatalLine(tail)
					if hung {
						sig = "hang"
					}
					extraViol = append(extraViol, Violation{Property: ck.ID, Sig: sig, What: kind, Phase: p.phase, Idx: p.idx, Seed: seed, Tier: tier,
						Case: map[string]interface{}{"desc": p.desc, "log_tail": tail}})
				} else {
					inconcl = append(inconcl, fmt.Sprintf("shard %d: %s at %s[%d]: %s\n%s", sh, kind, p.phase, p.idx, p.desc, tail))
				}
				mu.Unlock()
				// resume after the culprit
				pi := 0
				for i := range ck.Phases {
					if ck.Phases[i].Name == p.phase {
						pi = i
					}
				}
				fromPhase, fromIdx = pi, p.idx+1
			}
			mu.Lock()
			inconcl = append(inconcl, fmt.Sprintf("shard %d: too many worker restarts", sh))
			mu.Unlock()
		}(sh)
	}
	wg.Wait()

	agg := &Aggregate{Counters: map[string]int64{}, Sets: map[string]map[string]struct{}{}}
	distinct := map[uint64]struct{}{}
	sort.Strings(resFiles)
	for _, rf := range resFiles {
		b, err := os.ReadFile(rf)
		if err != nil {
			inconcl = append(inconcl, "missing shard result "+rf)
			continue
		}
		var r shardResult
		if err := json.Unmarshal(b, &r); err != nil {
			inconcl = append(inconcl, "bad shard result "+rf)
			continue
		}
		agg.Evals += r.Evals
		for k, v := range r.Counters {
			agg.Counters[k] += v
		}
		for k, items := range r.Sets {
			m := agg.Sets[k]
			if m == nil {
				m = map[string]struct{}{}
				agg.Sets[k] = m
			}
			for _, it := range items {
				m[it] = struct{}{}
			}
		}
		if len(agg.Samples) < 8 {
			for _, s := range r.Samples {
				if len(agg.Samples) < 8 {
					agg.Samples = append(agg.Samples, s)
				}
			}
		}
		agg.Violations = append(agg.Violations, r.Violations...)
		agg.Inconcl = append(agg.Inconcl, r.Inconcl...)
		agg.DistinctOv = agg.DistinctOv || r.DistinctOv
		if hb, err := os.ReadFile(strings.TrimSuffix(rf, ".json") + ".hashes"); err == nil {
			for i := 0; i+8 <= len(hb); i += 8 {
				distinct[binary.LittleEndian.Uint64(hb[i:])] = struct{}{}
			}
		}
	}
	agg.Distinct = len(distinct)
	agg.Violations = append(agg.Violations, extraViol...)
	for _, sl := range slow {
		fmt.Println("SLOW-CASE", sl)
	}
	agg.Counters["slow_cases_confirmed_to_terminate"] = int64(len(slow))
	agg.Inconcl = append(agg.Inconcl, inconcl...)
	if ck.Post != nil {
		agg.Inconcl = append(agg.Inconcl, ck.Post(agg)...)
	}

	// Known findings.
	kf := LoadKnownFindings()
	var real []Violation
	knownHit := map[string]int{}
	for _, v := range agg.Violations {
		if e := kf.Match(ck.ID, v.Sig); e != nil {
			knownHit[e.ID]++
			continue
		}
		real = append(real, v)
	}
	sort.SliceStable(real, func(i, j int) bool {
		if real[i].Sig != real[j].Sig {
			return real[i].Sig < real[j].Sig
		}
		return real[i].Idx < real[j].Idx
	})

	wall := time.Since(t0).Seconds()
	writeEvidence(ck, tier, seed, agg, wall, len(real), knownHit, kf)

	for _, e := range kf.Open(ck.ID) {
		fmt.Printf("KNOWN-FINDING: property=%s %s [%s; observed %d witnesses this run]\n", ck.ID, e.What, e.ID, knownHit[e.ID])
	}
	exit := 0
	if len(real) > 0 {
		rdir := filepath.Join(root(), "replays", ck.ID)
		os.MkdirAll(rdir, 0o755)
		printed := map[string]int{}
		for _, v := range real {
			printed[v.Sig]++
			if printed[v.Sig] > 2 {
				continue
			}
			b, _ := json.MarshalIndent(v, "", "  ")
			name := fmt.Sprintf("%016x.json", HashString(fmt.Sprintf("%s|%s|%d|%d|%s", v.Sig, v.Phase, v.Idx, v.Seed, v.Tier)))
			p := filepath.Join(rdir, name)
			os.WriteFile(p, b, 0o644)
			fmt.Printf("  witness sig=%q what=%s\n", v.Sig, oneLine(v.What, 300))
			fmt.Printf("VIOLATION property=%s replay=%s\n", ck.ID, p)
		}
		exit = 1
	}
	if len(agg.Inconcl) > 0 {
		for i, s := range agg.Inconcl {
			if i >= 10 {
				fmt.Printf("INCONCLUSIVE (+%d more)\n", len(agg.Inconcl)-10)
				break
			}
			fmt.Printf("INCONCLUSIVE property=%s %s\n", ck.ID, oneLine(s, 2000))
		}
		if exit == 0 {
			exit = 2
		}
	}
	fmt.Printf("%s tier=%s seed=%d: evaluations=%d distinct_nontrivial=%d violations=%d known_hits=%d wall=%.1fs exit=%d\n",
		ck.ID, tier, seed, agg.Evals, agg.Distinct, len(real), len(knownHit), wall, exit)
	return exit
}

func oneLine(s string, max int) string {
	s = strings.ReplaceAll(s, "\n", " | ")
	if len(s) > max {
		s = s[:max] + "…"
	}
	return s
}

func tailFile(path string, lines int) string {
	b, err := os.ReadFile(path)
	if err != nil {
		return ""
	}
	ls := strings.Split(string(b), "\n")
	// keep head (fatal error line is first) and a little context
	if len(ls) > lines {
		ls = ls[:lines]
	}
	return strings.Join(ls, "\n")
}

func firstFatalLine(tail string) string {
	for _, l := range strings.Split(tail, "\n") {
		if strings.HasPrefix(l, "fatal error:") || strings.HasPrefix(l, "panic:") || strings.Contains(l, "stack overflow") {
			return oneLine(l, 120)
		}
	}
	return "unknown"
}

func writeEvidence(ck *Check, tier string, seed uint64, a *Aggregate, wall float64, nviol int, knownHit map[string]int, kf *KnownFindings) {
	cov := map[string]interface{}{
		"evaluations":         a.Evals,
		"distinct_nontrivial": a.Distinct,
		"rule":                ck.Rule,
		"samples":             a.Samples,
		"counters":            a.Counters,
	}
	if a.DistinctOv {
		cov["distinct_note"] = "distinct set capped per worker; count is a lower bound"
	}
	sets := map[string]interface{}{}
	for k, m := range a.Sets {
		var items []string
		for it := range m {
			items = append(items, it)
		}
		sort.Strings(items)
		sets[k] = map[string]interface{}{"count": len(items), "items": capList(items, 400)}
	}
	cov["observed_sets"] = sets
	if len(a.Inconcl) > 0 {
		cov["inconclusive"] = capList(a.Inconcl, 20)
	}
	kh := map[string]int{}
	for _, e := range kf.Open(ck.ID) {
		kh[e.ID] = knownHit[e.ID]
	}
	cov["known_findings_observed"] = kh
	if a.Samples == nil {
		cov["samples"] = []interface{}{}
	}
	ev := map[string]interface{}{
		"property_id": ck.ID,
		"tier":        tier,
		"seed":        seed,
		"level":       ck.Level,
		"coverage":    cov,
		"assumptions": ck.Assumptions,
		"wall_s":      wall,
		"violations":  nviol,
	}
	b, _ := json.MarshalIndent(ev, "", " ")
	os.MkdirAll(filepath.Join(root(), "evidence"), 0o755)
	os.WriteFile(filepath.Join(root(), "evidence", ck.ID+".json"), b, 0o644)
}

func capList(xs []string, n int) []string {
	if len(xs) > n {
		return xs[:n]
	}
	return xs
}

// confirmHang re-runs one case alone; true = it still does not terminate.
func confirmHang(self string, ck *Check, tier string, seed uint64, phase int, idx uint64, limit time.Duration) bool {
	cmd := exec.Command(self, "single", ck.ID, "--tier", tier, "--seed", strconv.FormatUint(seed, 10),
		"--from-phase", strconv.Itoa(phase), "--from-idx", strconv.FormatUint(idx, 10))
	cmd.Env = append(os.Environ(), "GOMAXPROCS=2")
	if err := cmd.Start(); err != nil {
		return true
	}
	done := make(chan error, 1)
	go func() { done <- cmd.Wait() }()
	select {
	case <-done:
		return false
	case <-time.After(limit):
		cmd.Process.Kill()
		<-done
		return true
	}
}
