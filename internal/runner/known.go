package runner

import (
	"encoding/json"
	"os"
	"path/filepath"
)

// KnownFinding is one entry of /verif/known_findings.json. The file is
// committed and never written at run time. Only status "open" suppresses the
// VIOLATION line, and only for witnesses whose signature equals Sig exactly.
type KnownFinding struct {
	Property string `json:"property"`
	ID       string `json:"id"`
	Status   string `json:"status"` // "open" | "fixed"
	Sig      string `json:"sig"`
	What     string `json:"what"`
	Witness  string `json:"witness,omitempty"`
	Commit   string `json:"commit,omitempty"`
}

type KnownFindings struct{ Entries []KnownFinding }

func LoadKnownFindings() *KnownFindings {
	k := &KnownFindings{}
	b, err := os.ReadFile(filepath.Join(root(), "known_findings.json"))
	if err != nil {
		return k
	}
	var f struct {
		Findings []KnownFinding `json:"findings"`
	}
	if json.Unmarshal(b, &f) == nil {
		k.Entries = f.Findings
	}
	return k
}

func (k *KnownFindings) Match(prop, sig string) *KnownFinding {
	for i := range k.Entries {
		e := &k.Entries[i]
		if e.Property == prop && e.Status == "open" && e.Sig == sig {
			return e
		}
	}
	return nil
}

func (k *KnownFindings) Open(prop string) []KnownFinding {
	var out []KnownFinding
	for _, e := range k.Entries {
		if e.Property == prop && e.Status == "open" {
			out = append(out, e)
		}
	}
	return out
}
