package runner

import (
	"encoding/json"
	"os"
	"path/filepath"
)

// KnownFinding is one entry of /verif/known_findings.json. The file is
// committed and never written at run time. Only status "open" suppresses the
// VIOLATION line, and only for witnesses whose signature equals Sig exactly.
type KnownFinding struct {
	Property string `json:"property"`
	ID       string `json:"id"`
	Status   string `json:"status"` // "open" | "fixed"
	Sig      string `json:"sig"`
	What     string `json:"what"`
	Witness  string `json:"witness,omitempty"`
	Commit   string `json:"commit,omitempty"`
}

type KnownFindings struct{ Entries []KnownFinding }

func LoadKnownFindings() *KnownFindings {
	k := &KnownFindings{}
	b, err := os.ReadFile(knownPath())
	if err != nil {
		return k
	}
	var f struct {
		Findings []KnownFinding `json:"findings"`
	}
	if json.Unmarshal(b, &f) == nil {
		k.Entries = f.Findings
	}
	return k
}

func (k *KnownFindings) Match(prop, sig string) *KnownFinding {
	for i := range k.Entries {
		e := &k.Entries[i]
		if e.Property == prop && e.Status == "open" && e.Sig == sig {
			return e
		}
	}
	return nil
}

func (k *KnownFindings) Open(prop string) []KnownFinding {
	var out []KnownFinding
	for _, e := range k.Entries {
		if e.Property == prop && e.Status == "open" {
			out = append(out, e)
		}
	}
	return out
}

// knownPath: the committed known-findings file lives in the harness home
// (/verif), independent of VERIF_ROOT (which only redirects run-time output).
func knownPath() string {
	if p := os.Getenv("VERIF_KNOWN"); p != "" {
		return p
	}
	if h := os.Getenv("VERIF_HOME"); h != "" {
		return filepath.Join(h, "known_findings.json")
	}
	return "/verif/known_findings.json"
}
