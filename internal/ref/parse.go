package ref

import (
	"fmt"
	"regexp"
	"strconv"
	"strings"
	"unicode"
)

// Reference parser for C11: a stratified recursive-descent parser (one
// function per binding-power level) over a token list, written from the
// documented grammar and operator table, not as the precedence-climbing loop
// the library uses. It returns a structural dump of the tree (node kinds,
// operators, values, nil-safe flags; no locations) or an error.

type PTok struct {
	Kind string // "ident", "number", "string", "op", "bracket", "eof"
	Text string
	Val  string // decoded value for strings
}

type parseErr struct{ msg string }

type rparser struct {
	toks  []PTok
	pos   int
	depth int
}

func perr(f string, a ...interface{}) { panic(parseErr{fmt.Sprintf(f, a...)}) }

// ParseTokens parses the token list; ok=false means the reference grammar
// rejects it.
func ParseTokens(toks []PTok) (dump string, ok bool, why string) {
	p := &rparser{toks: append(append([]PTok{}, toks...), PTok{Kind: "eof"})}
	defer func() {
		if r := recover(); r != nil {
			if e, is := r.(parseErr); is {
				dump, ok, why = "", false, e.msg
				return
			}
			panic(r)
		}
	}()
	d := p.expr()
	if p.cur().Kind != "eof" {
		perr("unexpected token %q", p.cur().Text)
	}
	return d, true, ""
}

func (p *rparser) cur() PTok { return p.toks[p.pos] }
func (p *rparser) next() {
	if p.pos < len(p.toks)-1 {
		p.pos++
	} else {
		perr("unexpected end of expression")
	}
}
func (p *rparser) isOp(s string) bool { t := p.cur(); return t.Kind == "op" && t.Text == s }
func (p *rparser) isBr(s string) bool { t := p.cur(); return t.Kind == "bracket" && t.Text == s }
func (p *rparser) expectOp(s string) {
	if !p.isOp(s) {
		perr("expected %q, got %q", s, p.cur().Text)
	}
	p.next()
}
func (p *rparser) expectBr(s string) {
	if !p.isBr(s) {
		perr("expected %q, got %q", s, p.cur().Text)
	}
	p.next()
}

// expr := or-level [ '?' expr ':' expr | '?' ':' expr ]   (right-nested)
func (p *rparser) expr() string {
	c := p.level(0)
	for p.isOp("?") {
		p.next()
		if p.isOp(":") {
			p.next()
			e2 := p.expr()
			c = fmt.Sprintf("Cond{%s,%s,%s}", c, c, e2)
		} else {
			e1 := p.expr()
			p.expectOp(":")
			e2 := p.expr()
			c = fmt.Sprintf("Cond{%s,%s,%s}", c, e1, e2)
		}
	}
	return c
}

// binding powers, lowest first; every level is left-associative except **.
var levels = [][]string{
	{"or", "||"},
	{"and", "&&"},
	{"==", "!=", "<", ">", "<=", ">=", "in", "not in", "matches", "contains", "startsWith", "endsWith"},
	{".."},
	{"+", "-"},
	{"*", "/", "%"},
	{"**"},
}

// powerOf maps the table's numeric powers to level indexes (for the unary
// operators, whose operand is "everything binding at least as tightly").
var notLevel = 5 // not/! (50) sits between + - (30) and * / % (60): operand level = 5
var topLevel = len(levels)

func contains(xs []string, s string) bool {
	for _, x := range xs {
		if x == s {
			return true
		}
	}
	return false
}

// level(i) parses a chain of operators of level i over operands of level i+1;
// operators of a lower level end it.
func (p *rparser) level(i int) string {
	if i == topLevel {
		return p.prefix()
	}
	if i == len(levels)-1 { // ** is right-associative
		l := p.level(i + 1)
		if p.cur().Kind == "op" && contains(levels[i], p.cur().Text) {
			op := p.cur().Text
			p.next()
			r := p.level(i) // right operand may itself be a ** chain
			return binDump(op, l, r)
		}
		return l
	}
	l := p.level(i + 1)
	for p.cur().Kind == "op" && contains(levels[i], p.cur().Text) {
		op := p.cur().Text
		p.next()
		r := p.level(i + 1)
		l = binDump(op, l, r)
	}
	return l
}

func binDump(op, l, r string) string {
	if op == "matches" {
		re := "nil"
		if strings.HasPrefix(r, "String{") {
			// a literal pattern is compiled at parse time
			var s string
			fmt.Sscanf(r, "String{%q}", &s)
			if _, err := regexp.Compile(s); err != nil {
				perr("bad regexp")
			}
			re = "compiled"
		}
		return fmt.Sprintf("Matches{%s,%s,%s}", re, l, r)
	}
	return fmt.Sprintf("Binary{%s,%s,%s}", op, l, r)
}

// prefix := ('not'|'!') level(notLevel)… | ('-'|'+') primary-with-operators-above-500 …
// The operand of not/! extends over * / % and **; the operand of unary -/+ is
// a bare primary. In both cases postfix accessors written after an operand
// that takes none of its own (a literal) attach to the unary node.
func (p *rparser) prefix() string {
	if p.cur().Kind == "op" {
		switch p.cur().Text {
		case "not", "!":
			op := p.cur().Text
			p.next()
			x := p.level(notLevel)
			return p.postfix(fmt.Sprintf("Unary{%s,%s}", op, x), false)
		case "-", "+":
			op := p.cur().Text
			p.next()
			x := p.prefix()
			return p.postfix(fmt.Sprintf("Unary{%s,%s}", op, x), false)
		}
	}
	return p.primary()
}

func (p *rparser) primary() string {
	t := p.cur()
	switch {
	case t.Kind == "bracket" && t.Text == "(":
		p.next()
		e := p.expr()
		p.expectBr(")")
		return p.postfix(e, false)
	case t.Kind == "op" && (t.Text == "#" || t.Text == "."):
		if p.depth == 0 {
			perr("pointer accessor outside closure")
		}
		if t.Text == "#" {
			p.next()
		}
		return p.postfix("Pointer{}", false)
	case t.Kind == "ident":
		p.next()
		switch t.Text {
		case "true":
			return "Bool{true}"
		case "false":
			return "Bool{false}"
		case "nil":
			return "Nil{}"
		}
		return p.postfix(p.identExpr(t), false)
	case t.Kind == "number":
		p.next()
		return numberDump(t.Text)
	case t.Kind == "string":
		p.next()
		return fmt.Sprintf("String{%q}", t.Val)
	case t.Kind == "bracket" && t.Text == "[":
		return p.postfix(p.array(), false)
	case t.Kind == "bracket" && t.Text == "{":
		return p.postfix(p.mapLit(), false)
	}
	perr("unexpected token %q", t.Text)
	return ""
}

func numberDump(text string) string {
	v := strings.Replace(text, "_", "", -1)
	if !strings.ContainsAny(v, "xX") && strings.ContainsAny(v, ".eE") {
		f, err := strconv.ParseFloat(v, 64)
		if err != nil {
			perr("bad float")
		}
		return fmt.Sprintf("Float{%v}", f)
	}
	base := 10
	if strings.ContainsAny(v, "xX") {
		base = 0
	}
	n, err := strconv.ParseInt(v, base, 64)
	if err != nil {
		perr("bad integer")
	}
	return fmt.Sprintf("Integer{%d}", n)
}

var builtinArity = map[string]int{"len": 1, "all": 2, "none": 2, "any": 2, "one": 2, "filter": 2, "map": 2, "count": 2}

func (p *rparser) identExpr(t PTok) string {
	if p.isBr("(") {
		if ar, ok := builtinArity[t.Text]; ok {
			p.next()
			args := []string{p.expr()}
			if ar == 2 {
				p.expectOp(",")
				p.expectBr("{")
				p.depth++
				body := p.expr()
				p.depth--
				p.expectBr("}")
				args = append(args, fmt.Sprintf("Closure{%s}", body))
			}
			p.expectBr(")")
			return fmt.Sprintf("Builtin{%s,[%s]}", t.Text, strings.Join(args, ","))
		}
		args := p.arguments()
		return fmt.Sprintf("Function{%s,[%s]}", t.Text, strings.Join(args, ","))
	}
	return fmt.Sprintf("Identifier{%s,%v}", t.Text, p.isOp("?."))
}

func (p *rparser) arguments() []string {
	p.expectBr("(")
	var args []string
	for !p.isBr(")") {
		if len(args) > 0 {
			p.expectOp(",")
		}
		args = append(args, p.expr())
	}
	p.next()
	return args
}

func (p *rparser) array() string {
	p.expectBr("[")
	var el []string
	for !p.isBr("]") {
		if len(el) > 0 {
			p.expectOp(",")
			if p.isBr("]") {
				break
			}
		}
		el = append(el, p.expr())
	}
	p.expectBr("]")
	return fmt.Sprintf("Array{[%s]}", strings.Join(el, ","))
}

func (p *rparser) mapLit() string {
	p.expectBr("{")
	var pairs []string
	for !p.isBr("}") {
		if len(pairs) > 0 {
			p.expectOp(",")
			if p.isBr("}") {
				break
			}
		}
		var key string
		t := p.cur()
		switch {
		case t.Kind == "number" || t.Kind == "ident":
			key = fmt.Sprintf("String{%q}", t.Text)
			p.next()
		case t.Kind == "string":
			key = fmt.Sprintf("String{%q}", t.Val)
			p.next()
		case t.Kind == "bracket" && t.Text == "(":
			key = p.expr()
		default:
			perr("bad map key %q", t.Text)
		}
		p.expectOp(":")
		v := p.expr()
		pairs = append(pairs, fmt.Sprintf("Pair{%s,%s}", key, v))
	}
	p.expectBr("}")
	return fmt.Sprintf("Map{[%s]}", strings.Join(pairs, ","))
}

func isIdentLike(s string) bool {
	if s == "" {
		return false
	}
	for i, r := range s {
		if r == '_' || r == '$' || unicode.IsLetter(r) || (i > 0 && unicode.IsDigit(r)) {
			continue
		}
		return false
	}
	return true
}

// postfix := { ('.'|'?.') name [args] | '[' … ']' }; a nil-safe accessor makes
// every later accessor of the chain nil-safe.
func (p *rparser) postfix(node string, nilsafe bool) string {
	for {
		t := p.cur()
		switch {
		case t.Kind == "op" && (t.Text == "." || t.Text == "?."):
			if t.Text == "?." {
				nilsafe = true
			}
			p.next()
			name := p.cur()
			if name.Kind == "eof" {
				perr("expected name")
			}
			p.next()
			if !(name.Kind == "ident" || (name.Kind == "op" && isIdentLike(name.Text))) {
				perr("expected name")
			}
			if p.isBr("(") {
				args := p.arguments()
				node = fmt.Sprintf("Method{%s,%s,[%s],%v}", node, name.Text, strings.Join(args, ","), nilsafe)
			} else {
				node = fmt.Sprintf("Property{%s,%s,%v}", node, name.Text, nilsafe)
			}
		case t.Kind == "bracket" && t.Text == "[":
			p.next()
			if p.isOp(":") {
				p.next()
				to := "nil"
				if !p.isBr("]") {
					to = p.expr()
				}
				p.expectBr("]")
				node = fmt.Sprintf("Slice{%s,nil,%s}", node, to)
			} else {
				from := p.expr()
				if p.isOp(":") {
					p.next()
					to := "nil"
					if !p.isBr("]") {
						to = p.expr()
					}
					p.expectBr("]")
					node = fmt.Sprintf("Slice{%s,%s,%s}", node, from, to)
				} else {
					p.expectBr("]")
					node = fmt.Sprintf("Index{%s,%s}", node, from)
				}
			}
		default:
			return node
		}
	}
}
