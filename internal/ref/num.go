package ref

import (
	"math"
	"reflect"

	"verif/internal/term"
)

// The promotion rule of C14, implemented by family with reflect.Convert
// rather than by 12x12 cases: the lower-ranked operand is converted to the
// higher-ranked operand's kind, then the Go operation of that kind applies.

func promote(a, b interface{}) (x, y reflect.Value, t reflect.Type) {
	va, vb := reflect.ValueOf(a), reflect.ValueOf(b)
	t = term.Promote(va.Type(), vb.Type())
	return ConvNum(va, t), ConvNum(vb, t), t
}

// ConvNum converts a numeric value to the numeric type t the way a Go
// conversion expression does. reflect.Value.Convert is not that: it takes an
// integer to float32 through float64, which rounds twice (2^63-2^38-383 goes to
// 2^63 instead of 2^63-2^39).
func ConvNum(v reflect.Value, t reflect.Type) reflect.Value {
	if t.Kind() == reflect.Float32 {
		switch {
		case v.CanInt():
			return reflect.ValueOf(float32(v.Int())).Convert(t)
		case v.CanUint():
			return reflect.ValueOf(float32(v.Uint())).Convert(t)
		}
	}
	return v.Convert(t)
}

func isSigned(t reflect.Type) bool {
	switch t.Kind() {
	case reflect.Int, reflect.Int8, reflect.Int16, reflect.Int32, reflect.Int64:
		return true
	}
	return false
}

func isUnsigned(t reflect.Type) bool {
	switch t.Kind() {
	case reflect.Uint, reflect.Uint8, reflect.Uint16, reflect.Uint32, reflect.Uint64:
		return true
	}
	return false
}

// Arith computes a op b for op in + - * / %.
func Arith(op string, a, b interface{}) (interface{}, *Failure) {
	x, y, t := promote(a, b)
	switch {
	case isSigned(t):
		p, q := x.Int(), y.Int()
		var r int64
		switch op {
		case "+":
			r = p + q
		case "-":
			r = p - q
		case "*":
			r = p * q
		case "/":
			if q == 0 {
				return nil, &Failure{Class: FailDivZero, Msg: "integer divide by zero"}
			}
			if q == -1 {
				r = -p // wraps for the minimum value like Go's own division
			} else {
				r = p / q
			}
		case "%":
			if q == 0 {
				return nil, &Failure{Class: FailDivZero, Msg: "integer divide by zero"}
			}
			if q == -1 {
				r = 0
			} else {
				r = p % q
			}
		}
		// truncate to the width of t (two's complement wrap-around)
		return reflect.ValueOf(r).Convert(t).Interface(), nil
	case isUnsigned(t):
		p, q := x.Uint(), y.Uint()
		var r uint64
		switch op {
		case "+":
			r = p + q
		case "-":
			r = p - q
		case "*":
			r = p * q
		case "/":
			if q == 0 {
				return nil, &Failure{Class: FailDivZero, Msg: "integer divide by zero"}
			}
			r = p / q
		case "%":
			if q == 0 {
				return nil, &Failure{Class: FailDivZero, Msg: "integer divide by zero"}
			}
			r = p % q
		}
		return reflect.ValueOf(r).Convert(t).Interface(), nil
	case t.Kind() == reflect.Float32:
		p, q := float32(x.Float()), float32(y.Float())
		var r float32
		switch op {
		case "+":
			r = p + q
		case "-":
			r = p - q
		case "*":
			r = p * q
		case "/":
			r = p / q
		default:
			return nil, &Failure{Class: FailType, Msg: "% on float"}
		}
		return r, nil
	default:
		p, q := x.Float(), y.Float()
		var r float64
		switch op {
		case "+":
			r = p + q
		case "-":
			r = p - q
		case "*":
			r = p * q
		case "/":
			r = p / q
		default:
			return nil, &Failure{Class: FailType, Msg: "% on float"}
		}
		return r, nil
	}
}

// Compare computes a op b for op in == != < <= > >=.
func Compare(op string, a, b interface{}) bool {
	x, y, t := promote(a, b)
	var c int // -1, 0, 1, 2 = unordered
	switch {
	case isSigned(t):
		p, q := x.Int(), y.Int()
		c = cmp3(p < q, p == q)
	case isUnsigned(t):
		p, q := x.Uint(), y.Uint()
		c = cmp3(p < q, p == q)
	default:
		p, q := x.Float(), y.Float()
		if math.IsNaN(p) || math.IsNaN(q) {
			c = 2
		} else {
			c = cmp3(p < q, p == q)
		}
	}
	switch op {
	case "==":
		return c == 0
	case "!=":
		return c != 0
	case "<":
		return c == -1
	case "<=":
		return c == -1 || c == 0
	case ">":
		return c == 1
	case ">=":
		return c == 1 || c == 0
	}
	panic("ref: bad comparison " + op)
}

func cmp3(less, eq bool) int {
	if less {
		return -1
	}
	if eq {
		return 0
	}
	return 1
}

// Neg negates in the operand's own kind.
func Neg(a interface{}) interface{} {
	v := reflect.ValueOf(a)
	t := v.Type()
	switch {
	case isSigned(t):
		return reflect.ValueOf(-v.Int()).Convert(t).Interface()
	case isUnsigned(t):
		return reflect.ValueOf(-v.Uint()).Convert(t).Interface()
	case t.Kind() == reflect.Float32:
		return -float32(v.Float())
	default:
		return -v.Float()
	}
}

func ToFloat(a interface{}) float64 {
	v := reflect.ValueOf(a)
	switch {
	case v.CanInt():
		return float64(v.Int())
	case v.CanUint():
		return float64(v.Uint())
	default:
		return v.Float()
	}
}
