// Package ref is the reference semantics: an evaluator for term.Term written
// from docs/Language-Definition.md, the property statements and Go's own
// semantics. It does not import the library under test.
package ref

import (
	"fmt"
	"math"
	"math/big"
	"reflect"
	"regexp"
	"strings"

	"verif/internal/term"
)

// Failure classes (value reasons).
const (
	FailIndex   = "index-out-of-range"
	FailDivZero = "integer-divide-by-zero"
	FailNil     = "nil-dereference"
	FailRegexp  = "bad-regexp"
	FailPanic   = "member-panicked"
	FailBudget  = "memory-budget"
	FailType    = "dynamic-type" // only for interface{}-typed operands
)

type Failure struct {
	Class string
	Msg   string
}

func (f *Failure) Error() string { return f.Class + ": " + f.Msg }

type unspecified struct{ why string }

// Result of a reference evaluation.
type Result struct {
	Value  interface{}
	Fail   *Failure
	Unspec string // non-empty: the definition does not settle this evaluation
	Alloc  int64  // collection elements created (up to the failure point)
	// Tainted: a nil-safe access short-circuited to nil during the evaluation.
	// What a typed operator does with such a nil is not settled, so a
	// disagreement on a tainted evaluation is not judged.
	Tainted bool
}

type Evaluator struct {
	Env    reflect.Value // struct value (addressable not required)
	Budget int64         // 0 = unlimited
	alloc  int64
	elems  []interface{}
	taint  bool
	// ElvisTwice evaluates the condition of `a ?: b` a second time when it is
	// true, as the library does (recorded finding): used only to recognise
	// that deviation, never as the reference.
	ElvisTwice bool
}

func fail(class, f string, a ...interface{}) {
	if class == FailType {
		// a dynamic type failure caused by a nil operand: what an operator
		// does with nil is not settled by the definition
		for _, x := range a {
			if x == nil {
				unspec("nil operand: "+f, a...)
			}
		}
	}
	panic(&Failure{Class: class, Msg: fmt.Sprintf(f, a...)})
}

func unspec(f string, a ...interface{}) { panic(unspecified{fmt.Sprintf(f, a...)}) }

// Eval evaluates t over env (a struct or pointer to struct).
func Eval(t *term.Term, env interface{}, budget int64) (res Result) {
	return evalWith(t, env, budget, false)
}

// EvalElvisTwice is Eval with the library's double evaluation of the
// condition of `a ?: b`.
func EvalElvisTwice(t *term.Term, env interface{}, budget int64) (res Result) {
	return evalWith(t, env, budget, true)
}

func evalWith(t *term.Term, env interface{}, budget int64, elvisTwice bool) (res Result) {
	v := reflect.ValueOf(env)
	ev := &Evaluator{Env: v, Budget: budget, ElvisTwice: elvisTwice}
	defer func() {
		res.Alloc = ev.alloc
		res.Tainted = ev.taint
		if r := recover(); r != nil {
			switch x := r.(type) {
			case *Failure:
				res.Fail = x
			case unspecified:
				res.Unspec = x.why
			default:
				panic(r)
			}
		}
	}()
	res.Value = ev.eval(t)
	return
}

func (ev *Evaluator) account(n int64) {
	if n < 0 {
		n = 0
	}
	ev.alloc += n
	if ev.Budget > 0 && ev.alloc >= ev.Budget {
		fail(FailBudget, "created %d elements, budget %d", ev.alloc, ev.Budget)
	}
}

func isNilValue(v interface{}) bool {
	if v == nil {
		return true
	}
	r := reflect.ValueOf(v)
	switch r.Kind() {
	case reflect.Ptr, reflect.Map, reflect.Slice, reflect.Interface, reflect.Func, reflect.Chan:
		return r.IsNil()
	}
	return false
}

func isNumV(v interface{}) bool { return v != nil && term.IsNum(reflect.TypeOf(v)) }

func (ev *Evaluator) envStruct() reflect.Value {
	v := ev.Env
	if v.Kind() == reflect.Ptr {
		v = v.Elem()
	}
	return v
}

func (ev *Evaluator) eval(t *term.Term) interface{} {
	switch t.K {
	case term.KInt:
		return t.Int
	case term.KFloat:
		return t.Flt
	case term.KStr:
		return t.Str
	case term.KBool:
		return t.Bool
	case term.KNil:
		return nil
	case term.KIdent:
		f := ev.envStruct().FieldByName(t.Op)
		if !f.IsValid() {
			unspec("unknown identifier %s", t.Op)
		}
		return f.Interface()
	case term.KPointer:
		if len(ev.elems) == 0 {
			unspec("# outside closure")
		}
		return ev.elems[len(ev.elems)-1]
	case term.KUnary:
		x := ev.eval(t.Sub[0])
		switch t.Op {
		case "not", "!":
			b, ok := x.(bool)
			if !ok {
				fail(FailType, "not on %T", x)
			}
			return !b
		case "+":
			if !isNumV(x) {
				unspec("unary + on a non-number")
			}
			return x
		case "-":
			if !isNumV(x) {
				fail(FailType, "- on %T", x)
			}
			return Neg(x)
		}
	case term.KBinary:
		return ev.binary(t)
	case term.KField:
		x := ev.eval(t.Sub[0])
		return ev.field(x, t.Op, t.NilSafe || chainNilSafe(t.Sub[0]))
	case term.KIndex:
		x := ev.eval(t.Sub[0])
		i := ev.eval(t.Sub[1])
		return index(x, i)
	case term.KSlice:
		x := ev.eval(t.Sub[0])
		// operands left to right: the object, the lower bound, the upper one
		var from, to interface{}
		if t.Sub[1] != nil {
			from = ev.eval(t.Sub[1])
		}
		if t.Sub[2] != nil {
			to = ev.eval(t.Sub[2])
		}
		return slice(x, from, to)
	case term.KMethod:
		x := ev.eval(t.Sub[0])
		args := make([]interface{}, len(t.Sub)-1)
		for i, a := range t.Sub[1:] {
			args[i] = ev.eval(a)
		}
		if x == nil {
			if t.NilSafe || chainNilSafe(t.Sub[0]) {
				ev.taint = true
				return nil
			}
			fail(FailNil, "method %s of nil", t.Op)
		}
		rv := reflect.ValueOf(x)
		m := rv.MethodByName(t.Op)
		if !m.IsValid() {
			fail(FailType, "no method %s on %T", t.Op, x)
		}
		if rv.Kind() == reflect.Ptr && rv.IsNil() {
			if t.NilSafe {
				unspec("?.method on typed nil pointer")
			}
		}
		return call(m, args, t.Sub[1:])
	case term.KCall:
		args := make([]interface{}, len(t.Sub))
		for i, a := range t.Sub {
			args[i] = ev.eval(a)
		}
		var fn reflect.Value
		if f := ev.envStruct().FieldByName(t.Op); f.IsValid() && f.Kind() == reflect.Func {
			fn = f
		} else {
			fn = ev.Env.MethodByName(t.Op)
		}
		if !fn.IsValid() || fn.IsNil() {
			unspec("unknown function %s", t.Op)
		}
		return call(fn, args, t.Sub)
	case term.KBuiltin:
		return ev.builtin(t)
	case term.KCond:
		c := ev.eval(t.Sub[0])
		b, ok := c.(bool)
		if !ok {
			fail(FailType, "condition is %T", c)
		}
		if b {
			if t.Sub[0] == t.Sub[1] && !ev.ElvisTwice {
				// a ?: b: the condition is the first arm and is evaluated once
				return c
			}
			return ev.eval(t.Sub[1])
		}
		return ev.eval(t.Sub[2])
	case term.KArray:
		out := make([]interface{}, len(t.Sub))
		for i, s := range t.Sub {
			out[i] = ev.eval(s)
		}
		ev.account(int64(len(out)))
		return out
	case term.KMap:
		out := map[string]interface{}{}
		for i, s := range t.Sub {
			out[t.Keys[i]] = ev.eval(s)
		}
		ev.account(int64(len(t.Sub)))
		return out
	}
	panic(fmt.Sprintf("ref: unhandled term kind %v", t.K))
}

// chainNilSafe: once ?. appears in a postfix chain every later . is nil-safe
// too (pinned by the repository's tests).
func chainNilSafe(t *term.Term) bool {
	for t != nil {
		switch t.K {
		case term.KField, term.KMethod:
			if t.NilSafe {
				return true
			}
			t = t.Sub[0]
		case term.KIndex, term.KSlice:
			t = t.Sub[0]
		default:
			return false
		}
	}
	return false
}

func (ev *Evaluator) field(x interface{}, name string, nilsafe bool) interface{} {
	if x == nil {
		if nilsafe {
			ev.taint = true
			return nil
		}
		fail(FailNil, "field %s of nil", name)
	}
	v := reflect.ValueOf(x)
	if v.Kind() == reflect.Ptr {
		if v.IsNil() {
			if nilsafe {
				ev.taint = true
				return nil
			}
			fail(FailNil, "field %s of nil pointer", name)
		}
		v = v.Elem()
	}
	switch v.Kind() {
	case reflect.Struct:
		f := v.FieldByName(name)
		if !f.IsValid() || !f.CanInterface() {
			if nilsafe {
				return nil
			}
			fail(FailType, "no field %s in %T", name, x)
		}
		return f.Interface()
	case reflect.Map:
		if v.Type().Key().Kind() != reflect.String {
			fail(FailType, "field %s of %T", name, x)
		}
		e := v.MapIndex(reflect.ValueOf(name).Convert(v.Type().Key()))
		if !e.IsValid() {
			return reflect.Zero(v.Type().Elem()).Interface()
		}
		return e.Interface()
	}
	if nilsafe {
		return nil
	}
	fail(FailType, "field %s of %T", name, x)
	return nil
}

func toInt(v interface{}) (int, bool) {
	if !isNumV(v) {
		return 0, false
	}
	r := reflect.ValueOf(v)
	switch {
	case r.CanInt():
		return int(r.Int()), true
	case r.CanUint():
		return int(r.Uint()), true
	case r.CanFloat():
		return int(r.Float()), true
	}
	return 0, false
}

func index(x, i interface{}) interface{} {
	if x == nil {
		fail(FailNil, "index of nil")
	}
	v := reflect.ValueOf(x)
	switch v.Kind() {
	case reflect.Slice, reflect.Array:
		n, ok := toInt(i)
		if !ok {
			fail(FailType, "index %T", i)
		}
		if n < 0 || n >= v.Len() {
			fail(FailIndex, "index %d out of range [0,%d)", n, v.Len())
		}
		return v.Index(n).Interface()
	case reflect.Map:
		if i == nil || !reflect.TypeOf(i).AssignableTo(v.Type().Key()) {
			fail(FailType, "key %T for %T", i, x)
		}
		e := v.MapIndex(reflect.ValueOf(i))
		if !e.IsValid() {
			return reflect.Zero(v.Type().Elem()).Interface()
		}
		return e.Interface()
	}
	if v.Kind() == reflect.String {
		unspec("indexing a string")
	}
	fail(FailType, "cannot index %T", x)
	return nil
}

func slice(x, from, to interface{}) interface{} {
	if x == nil {
		fail(FailNil, "slice of nil")
	}
	v := reflect.ValueOf(x)
	if v.Kind() != reflect.Slice && v.Kind() != reflect.String {
		fail(FailType, "cannot slice %T", x)
	}
	n := v.Len()
	a, b := 0, n
	if from != nil {
		var ok bool
		if a, ok = toInt(from); !ok {
			fail(FailType, "slice bound %T", from)
		}
	}
	if to != nil {
		var ok bool
		if b, ok = toInt(to); !ok {
			fail(FailType, "slice bound %T", to)
		}
	}
	if a < 0 || b < 0 {
		unspec("negative slice bound")
	}
	if b > n {
		b = n
	}
	if a > b {
		a = b
	}
	return v.Slice(a, b).Interface()
}

func call(fn reflect.Value, args []interface{}, argTerms []*term.Term) (out interface{}) {
	ft := fn.Type()
	in := make([]reflect.Value, len(args))
	for i, a := range args {
		var pt reflect.Type
		if ft.IsVariadic() && i >= ft.NumIn()-1 {
			pt = ft.In(ft.NumIn() - 1).Elem()
		} else if i < ft.NumIn() {
			pt = ft.In(i)
		} else {
			fail(FailType, "too many arguments")
		}
		if a == nil {
			if pt.Kind() == reflect.Interface {
				in[i] = reflect.Zero(pt)
				continue
			}
			// an untyped nil for a pointer/slice/map/scalar parameter: Go would
			// pass the zero value, the definition is silent
			unspec("nil argument for parameter of type %v", pt)
		}
		av := reflect.ValueOf(a)
		// an integer literal takes the parameter's numeric kind, as a Go
		// untyped constant does
		if i < len(argTerms) && isIntLit(argTerms[i]) && term.IsNum(pt) {
			cv := ConvNum(av, pt)
			// out-of-range literal: Go rejects it; not settled here
			if !sameNumber(av, cv) {
				unspec("integer literal does not fit %v", pt)
			}
			if cv.CanFloat() && cv.Float() == 0 && argTerms[i].K == term.KUnary {
				unspec("signed zero literal for a float parameter")
			}
			in[i] = cv
			continue
		}
		if !av.Type().AssignableTo(pt) {
			if i < len(argTerms) && term.IsNum(pt) && (argTerms[i].K == term.KBinary || argTerms[i].K == term.KUnary) {
				// integer arithmetic as argument of a numeric parameter: the
				// library retypes its literals to the parameter's kind; what
				// that means for the operands is not settled by the definition
				unspec("arithmetic argument for a numeric parameter of another kind")
			}
			fail(FailType, "%T not assignable to %v", a, pt)
		}
		in[i] = av
	}
	if !ft.IsVariadic() && len(in) != ft.NumIn() {
		fail(FailType, "arity")
	}
	defer func() {
		if r := recover(); r != nil {
			if _, ok := r.(*Failure); ok {
				panic(r)
			}
			if _, ok := r.(unspecified); ok {
				panic(r)
			}
			fail(FailPanic, "%v", r)
		}
	}()
	res := fn.Call(in)
	return res[0].Interface()
}

func isIntLit(a *term.Term) bool {
	if a.K == term.KInt {
		return true
	}
	if a.K == term.KUnary && (a.Op == "-" || a.Op == "+") {
		return isIntLit(a.Sub[0])
	}
	return false
}

func sameNumber(a, b reflect.Value) bool {
	return bigOf(a).Cmp(bigOf(b)) == 0
}

func bigOf(v reflect.Value) *big.Float {
	f := new(big.Float).SetPrec(200)
	switch {
	case v.CanInt():
		f.SetInt64(v.Int())
	case v.CanUint():
		f.SetUint64(v.Uint())
	case v.CanFloat():
		f.SetFloat64(v.Float())
	}
	return f
}

func (ev *Evaluator) builtin(t *term.Term) interface{} {
	x := ev.eval(t.Sub[0])
	if t.Op == "len" {
		if x == nil {
			fail(FailType, "len of nil")
		}
		v := reflect.ValueOf(x)
		switch v.Kind() {
		case reflect.Slice, reflect.Array, reflect.Map, reflect.String:
			return v.Len()
		}
		fail(FailType, "len of %T", x)
	}
	if x == nil {
		fail(FailType, "builtin %s over nil", t.Op)
	}
	v := reflect.ValueOf(x)
	if v.Kind() != reflect.Slice && v.Kind() != reflect.Array {
		fail(FailType, "builtin %s over %T", t.Op, x)
	}
	n := v.Len()
	body := t.Sub[1]
	pred := func(i int) bool {
		ev.elems = append(ev.elems, v.Index(i).Interface())
		r := ev.eval(body)
		ev.elems = ev.elems[:len(ev.elems)-1]
		b, ok := r.(bool)
		if !ok {
			fail(FailType, "predicate returned %T", r)
		}
		return b
	}
	switch t.Op {
	case "all":
		for i := 0; i < n; i++ {
			if !pred(i) {
				return false
			}
		}
		return true
	case "none":
		for i := 0; i < n; i++ {
			if pred(i) {
				return false
			}
		}
		return true
	case "any":
		for i := 0; i < n; i++ {
			if pred(i) {
				return true
			}
		}
		return false
	case "one":
		c := 0
		for i := 0; i < n; i++ {
			if pred(i) {
				c++
			}
		}
		return c == 1
	case "count":
		c := 0
		for i := 0; i < n; i++ {
			if pred(i) {
				c++
			}
		}
		return c
	case "filter":
		out := []interface{}{}
		for i := 0; i < n; i++ {
			if pred(i) {
				out = append(out, v.Index(i).Interface())
			}
		}
		ev.account(int64(len(out)))
		return out
	case "map":
		out := make([]interface{}, 0, n)
		for i := 0; i < n; i++ {
			ev.elems = append(ev.elems, v.Index(i).Interface())
			r := ev.eval(body)
			ev.elems = ev.elems[:len(ev.elems)-1]
			out = append(out, r)
		}
		ev.account(int64(len(out)))
		return out
	}
	panic("ref: unknown builtin " + t.Op)
}

func (ev *Evaluator) binary(t *term.Term) interface{} {
	op := t.Op
	switch op {
	case "and", "&&", "or", "||":
		l := ev.eval(t.Sub[0])
		lb, ok := l.(bool)
		if !ok {
			fail(FailType, "%s on %T", op, l)
		}
		if op == "and" || op == "&&" {
			if !lb {
				return false
			}
		} else if lb {
			return true
		}
		r := ev.eval(t.Sub[1])
		rb, ok := r.(bool)
		if !ok {
			unspec("right operand of %s is %T", op, r)
		}
		return rb
	}
	l := ev.eval(t.Sub[0])
	r := ev.eval(t.Sub[1])
	switch op {
	case "==":
		return Equal(l, r)
	case "!=":
		return !Equal(l, r)
	case "<", ">", "<=", ">=":
		if isNumV(l) && isNumV(r) {
			return Compare(op, l, r)
		}
		ls, ok1 := l.(string)
		rs, ok2 := r.(string)
		if ok1 && ok2 {
			switch op {
			case "<":
				return ls < rs
			case ">":
				return ls > rs
			case "<=":
				return ls <= rs
			default:
				return ls >= rs
			}
		}
		fail(FailType, "%T %s %T", l, op, r)
	case "+":
		ls, ok1 := l.(string)
		rs, ok2 := r.(string)
		if ok1 && ok2 {
			return ls + rs
		}
		fallthrough
	case "-", "*", "/", "%":
		if !isNumV(l) || !isNumV(r) {
			fail(FailType, "%T %s %T", l, op, r)
		}
		if op == "%" && (reflect.TypeOf(l).Kind() == reflect.Float32 || reflect.TypeOf(l).Kind() == reflect.Float64 ||
			reflect.TypeOf(r).Kind() == reflect.Float32 || reflect.TypeOf(r).Kind() == reflect.Float64) {
			fail(FailType, "%% on floats")
		}
		v, f := Arith(op, l, r)
		if f != nil {
			panic(f)
		}
		return v
	case "**":
		if !isNumV(l) || !isNumV(r) {
			fail(FailType, "%T ** %T", l, r)
		}
		return math.Pow(ToFloat(l), ToFloat(r))
	case "..":
		if !isNumV(l) || !isNumV(r) {
			fail(FailType, "%T .. %T", l, r)
		}
		a, _ := toInt(l)
		b, _ := toInt(r)
		if b < a {
			ev.account(0)
			return []int{}
		}
		size := new(big.Int).Sub(big.NewInt(int64(b)), big.NewInt(int64(a)))
		size.Add(size, big.NewInt(1))
		if !size.IsInt64() || (ev.Budget > 0 && size.Int64()+ev.alloc >= ev.Budget) || size.Int64() > 50_000_000 {
			if ev.Budget > 0 {
				ev.alloc += 1 << 40
				fail(FailBudget, "range of %v elements", size)
			}
			unspec("range too large for the reference")
		}
		out := make([]int, size.Int64())
		for i := range out {
			out[i] = a + i
		}
		ev.account(size.Int64())
		return out
	case "contains", "startsWith", "endsWith", "matches":
		ls, ok1 := l.(string)
		rs, ok2 := r.(string)
		if !ok1 || !ok2 {
			fail(FailType, "%T %s %T", l, op, r)
		}
		switch op {
		case "contains":
			return strings.Contains(ls, rs)
		case "startsWith":
			return strings.HasPrefix(ls, rs)
		case "endsWith":
			return strings.HasSuffix(ls, rs)
		default:
			re, err := regexp.Compile(rs)
			if err != nil {
				fail(FailRegexp, "%v", err)
			}
			return re.MatchString(ls)
		}
	case "in", "not in":
		res := in(l, r)
		if op == "not in" {
			return !res
		}
		return res
	}
	panic("ref: unknown binary " + op)
}

func in(x, coll interface{}) bool {
	if coll == nil {
		return false
	}
	v := reflect.ValueOf(coll)
	switch v.Kind() {
	case reflect.Slice, reflect.Array:
		for i := 0; i < v.Len(); i++ {
			if Equal(v.Index(i).Interface(), x) {
				return true
			}
		}
		return false
	case reflect.Map:
		if v.IsNil() {
			return false
		}
		if x == nil || !reflect.TypeOf(x).AssignableTo(v.Type().Key()) {
			fail(FailType, "key %T for %T", x, coll)
		}
		return v.MapIndex(reflect.ValueOf(x)).IsValid()
	case reflect.Ptr:
		if v.IsNil() {
			unspec("membership in nil pointer")
		}
		return in(x, v.Elem().Interface())
	case reflect.Struct:
		s, ok := x.(string)
		if !ok {
			fail(FailType, "field name %T", x)
		}
		f, ok := v.Type().FieldByName(s)
		if ok && f.PkgPath != "" {
			unspec("membership of an unexported field name")
		}
		return ok
	}
	fail(FailType, "in over %T", coll)
	return false
}

// Equal is the reference ==: numbers after promotion; strings; bools; nil
// equals nil and any nil pointer/slice/map; different families are unequal.
// Two sequences are equal when they have the same length and equal elements
// (the definition's `1..3 == [1, 2, 3]`), whatever their Go types; a nil slice
// against a sequence, and equality between maps or structs, is not settled
// (panics unspec).
func Equal(a, b interface{}) bool {
	if isNilValue(a) && isNilValue(b) {
		return true
	}
	isSeq := func(x interface{}) bool {
		if x == nil {
			return false
		}
		k := reflect.TypeOf(x).Kind()
		return k == reflect.Slice || k == reflect.Array
	}
	if isNilValue(a) || isNilValue(b) {
		if isSeq(a) && isSeq(b) {
			unspec("equality between a nil slice and a sequence")
		}
		return false
	}
	if isSeq(a) && isSeq(b) {
		va, vb := reflect.ValueOf(a), reflect.ValueOf(b)
		if va.Len() != vb.Len() {
			return false
		}
		for i := 0; i < va.Len(); i++ {
			if !va.Index(i).CanInterface() || !vb.Index(i).CanInterface() {
				unspec("equality between sequences of unexported values")
			}
			if !Equal(va.Index(i).Interface(), vb.Index(i).Interface()) {
				return false
			}
		}
		return true
	}
	if isNumV(a) && isNumV(b) {
		return Compare("==", a, b)
	}
	ka, kb := reflect.TypeOf(a).Kind(), reflect.TypeOf(b).Kind()
	scalar := func(k reflect.Kind) bool {
		return k == reflect.String || k == reflect.Bool || term.IsNum(reflect.TypeOf(reflect.Zero(kindType(k)).Interface()))
	}
	if scalar(ka) && scalar(kb) {
		if reflect.TypeOf(a) != reflect.TypeOf(b) {
			return false
		}
		return a == b
	}
	if scalar(ka) != scalar(kb) {
		return false // a scalar never equals a composite
	}
	unspec("equality between %T and %T", a, b)
	return false
}

func kindType(k reflect.Kind) reflect.Type {
	switch k {
	case reflect.String:
		return reflect.TypeOf("")
	case reflect.Bool:
		return reflect.TypeOf(true)
	case reflect.Int:
		return reflect.TypeOf(int(0))
	case reflect.Int8:
		return reflect.TypeOf(int8(0))
	case reflect.Int16:
		return reflect.TypeOf(int16(0))
	case reflect.Int32:
		return reflect.TypeOf(int32(0))
	case reflect.Int64:
		return reflect.TypeOf(int64(0))
	case reflect.Uint:
		return reflect.TypeOf(uint(0))
	case reflect.Uint8:
		return reflect.TypeOf(uint8(0))
	case reflect.Uint16:
		return reflect.TypeOf(uint16(0))
	case reflect.Uint32:
		return reflect.TypeOf(uint32(0))
	case reflect.Uint64:
		return reflect.TypeOf(uint64(0))
	case reflect.Float32:
		return reflect.TypeOf(float32(0))
	case reflect.Float64:
		return reflect.TypeOf(float64(0))
	}
	return reflect.TypeOf(struct{}{})
}
