package checks

import (
	"fmt"
	"reflect"
	"strings"

	"github.com/antonmedv/expr"

	"verif/internal/envs"
	"verif/internal/runner"
	"verif/internal/term"
)

// C03: static typing is sound and rejects ill-typed expressions.
// Soundness: reference-well-typed terms without dynamic operands never fail
// for a type reason and return the dynamic type the checker reported.
// Converse: single-fault mutants of the documented classes are rejected.

type MyInt int
type MyStr string

type NamedEnv struct {
	MyI MyInt
	MyS MyStr
	A   int
}

// pointers to scalars: every operator the checker accepts on them must work
type PtrEnv struct {
	PI, PI2, NilPI *int
	PS, PS2        *string
	PF             *float64
	PB             *bool
	A              int
	S              string
	PInts          *[]int
	PArr           *[2]int
	PMap           *map[string]int
}

var (
	int64T   = reflect.TypeOf(int64(0))
	float64T = reflect.TypeOf(float64(0))
)

func c03ResultSig(static, dyn reflect.Type) string {
	if static.Kind() == reflect.Slice && dyn == term.ArrT {
		return "result-type:slice-of-T-built-as-[]interface{}"
	}
	return fmt.Sprintf("result-type:static %v dynamic %v", static, dyn)
}

// c03Sound judges one well-typed source on several environments.
func c03Sound(c *runner.Ctx, src string, styles []int, seeds []uint64, tag string, constDivZero bool) {
	c.Begin(src)
	sample := envs.Env{}
	ct, cerr, cpan := checkerType(src, sample)
	p, co := SafeCompile(src, expr.Env(sample))
	c.Eval(1)
	cas := map[string]interface{}{"source": src, "compile": co.String()}
	if co.Panic != nil || cpan != nil {
		c.Violate("compile-panic", fmt.Sprint(co.Panic, cpan), cas)
		return
	}
	if co.Err != nil {
		if constDivZero && strings.Contains(co.Err.Error(), "integer divide by zero") {
			c.Count("const_div_zero_rejected_at_compile_time", 1)
			return
		}
		c.Violate("well-typed-rejected:"+errKeyOf(co.Err), "a reference-well-typed expression is rejected: "+firstLine(co.Err.Error()), cas)
		return
	}
	if cerr != nil {
		return
	}
	c.Distinct(src)
	c.Count("well_typed_compiled", 1)
	for i := range styles {
		e := envs.New(&envs.Log{})
		envs.Fill(e, styles[i], runner.NewRng(seeds[i]))
		o := SafeRun(p, *e)
		c.Eval(1)
		c.Count("runs", 1)
		cas["run"] = o.String()
		cas["env"] = envBrief(e)
		if o.Panic != nil {
			c.Violate("run-panic", fmt.Sprint(o.Panic), cas)
			return
		}
		if o.Err != nil {
			cls := ClassifyRunErr(o.Err)
			c.Count("run_failed_"+cls, 1)
			if cls == ClsType {
				if strings.Contains(o.Err.Error(), "Call using []interface {} as type []") {
					// one root cause whatever the expression: a map/filter/array
					// result (always built as []interface{}) reaches a typed
					// slice parameter
					c.Violate("type-failure:[]interface{}-result-passed-to-typed-slice-parameter", "a statically typed expression failed for a type reason: "+firstLine(o.Err.Error()), cas)
					return
				}
				c.Violate(tag+"type-failure:"+errKeyOf(o.Err), "a statically typed expression failed for a type reason: "+firstLine(o.Err.Error()), cas)
				return
			}
			continue
		}
		c.Count("run_ok", 1)
		if ct != nil && ct.Kind() != reflect.Interface && o.Val != nil {
			if dt := reflect.TypeOf(o.Val); dt != ct {
				cas["checker_type"] = ct.String()
				cas["dynamic_type"] = dt.String()
				sig := c03ResultSig(ct, dt)
				if tag == "mixed-arith:" {
					sig = "mixed-arith:result-type"
				}
				c.Violate(sig, fmt.Sprintf("the checker reported %v, the run returned %v", ct, dt), cas)
				return
			}
			c.Count("dynamic_type_equals_static", 1)
		}
	}
}

// c03Directive: under AsBool/AsInt64/AsFloat64 a successful result has
// exactly that type; a directive of the wrong kind is rejected.
func c03Directive(c *runner.Ctx, t *term.Term, src string, styles []int, seeds []uint64) {
	type dir struct {
		name string
		opt  expr.Option
		want reflect.Type
		ok   bool
	}
	isNum, isBool := term.IsNum(t.T), term.IsBool(t.T)
	dirs := []dir{{"AsBool", expr.AsBool(), term.BoolT, isBool}, {"AsInt64", expr.AsInt64(), int64T, isNum}, {"AsFloat64", expr.AsFloat64(), float64T, isNum}}
	for _, d := range dirs {
		p, co := SafeCompile(src, expr.Env(envs.Env{}), d.opt)
		c.Eval(1)
		cas := map[string]interface{}{"source": src, "directive": d.name, "static_type": typeName(t.T), "compile": co.String()}
		if co.Panic != nil {
			c.Violate("directive-compile-panic:"+d.name, fmt.Sprint(co.Panic), cas)
			continue
		}
		if !d.ok && (term.IsAny(t.T) || t.T == term.NilT) {
			// no static kind: Compile may accept or reject, but whatever
			// it accepts must still return exactly the directive's type
			if co.Err != nil {
				continue
			}
		} else if !d.ok {
			if co.Err == nil {
				c.Violate("directive-of-wrong-kind-accepted:"+d.name+":"+kindClass(t.T), fmt.Sprintf("%s accepted an expression of static type %s", d.name, typeName(t.T)), cas)
			} else {
				c.Count("wrong_directive_rejected", 1)
			}
			continue
		}
		if co.Err != nil {
			if t.HasConstDivZero() && strings.Contains(co.Err.Error(), "integer divide by zero") {
				continue
			}
			c.Violate("directive-rejected:"+d.name, d.name+" rejected an expression of matching kind: "+firstLine(co.Err.Error()), cas)
			continue
		}
		for i := range styles {
			e := envs.New(&envs.Log{})
			envs.Fill(e, styles[i], runner.NewRng(seeds[i]))
			o := SafeRun(p, *e)
			c.Eval(1)
			if o.Failed() || o.Val == nil {
				continue
			}
			c.Count("directive_results", 1)
			if reflect.TypeOf(o.Val) != d.want {
				cas["run"] = o.String()
				c.Violate("directive-result-type:"+d.name, fmt.Sprintf("%s returned %T", d.name, o.Val), cas)
				break
			}
		}
	}
}

func kindClass(t reflect.Type) string {
	switch {
	case term.IsNum(t):
		return "number"
	case term.IsStr(t):
		return "string"
	case term.IsBool(t):
		return "bool"
	case term.IsSlice(t):
		return "slice"
	case term.IsMap(t):
		return "map"
	}
	return "other"
}

// a mutation site
type c03Site struct {
	node  *term.Term
	class string
	mk    func(g *term.Gen) *term.Term // builds the faulty replacement of node
}

func rawCopy(t *term.Term, sub ...*term.Term) *term.Term {
	cp := *t
	cp.Sub = sub
	return &cp
}

func wrongFor(r *runner.Rng, want string) reflect.Type {
	// a type that the documented rules do not admit where `want` is required
	switch want {
	case "number":
		return []reflect.Type{term.StrT, term.BoolT, term.IntsT, term.ItemT}[r.Intn(4)]
	case "string":
		return []reflect.Type{term.IntT, term.BoolT, term.FloatT, term.IntsT}[r.Intn(4)]
	case "bool":
		return []reflect.Type{term.IntT, term.StrT, term.FloatT, term.IntsT, term.ItemT}[r.Intn(5)]
	case "integer":
		return []reflect.Type{term.StrT, term.BoolT, term.FloatT}[r.Intn(3)]
	case "collection":
		return []reflect.Type{term.IntT, term.BoolT, term.FloatT, term.ItemT}[r.Intn(4)]
	case "array":
		return []reflect.Type{term.IntT, term.BoolT, term.StrT, term.ItemT, term.MIT}[r.Intn(5)]
	}
	return term.StrT
}

func c03Sites(t *term.Term, r *runner.Rng) []c03Site {
	var sites []c03Site
	// names inside a nil-safe chain (a?.b.c) and identifiers directly followed
	// by ?. are accepted by design when unknown
	nilSafe := map[*term.Term]bool{}
	t.Walk(func(x *term.Term) {
		if x == nil || (x.K != term.KField && x.K != term.KMethod) {
			return
		}
		chain := false
		for y := x; y != nil && (y.K == term.KField || y.K == term.KMethod || y.K == term.KIndex || y.K == term.KSlice); y = y.Sub[0] {
			if (y.K == term.KField || y.K == term.KMethod) && y.NilSafe {
				chain = true
			}
		}
		if chain {
			nilSafe[x] = true
		}
		if x.NilSafe {
			nilSafe[x.Sub[0]] = true
		}
	})
	var walk func(x *term.Term, inClosure bool)
	walk = func(x *term.Term, inClosure bool) {
		if x == nil {
			return
		}
		n := x
		if nilSafe[x] && (x.K == term.KField || x.K == term.KMethod || x.K == term.KIdent) {
			for i, s := range x.Sub {
				walk(s, inClosure || (x.K == term.KBuiltin && i == 1))
			}
			return
		}
		switch x.K {
		case term.KBinary:
			var want string
			switch x.Op {
			case "-", "*", "/", "**":
				want = "number"
			case "%", "..":
				want = "integer"
			case "and", "or", "&&", "||":
				want = "bool"
			case "contains", "startsWith", "endsWith", "matches":
				want = "string"
			case "<", ">", "<=", ">=", "+":
				// number x number or string x string: break one side
				if term.IsNum(x.Sub[0].T) {
					want = "number"
				} else {
					want = "string"
				}
				if want == "number" {
					want = "number!string" // anything but a number (bool, slice, struct) or a string against a number
				}
			case "==", "!=":
				if term.IsNum(x.Sub[0].T) && term.IsNum(x.Sub[1].T) {
					want = "eqnum"
				} else if term.IsStr(x.Sub[0].T) && term.IsStr(x.Sub[1].T) {
					want = "eqstr"
				}
			}
			if want != "" {
				side := r.Intn(2)
				w := want
				sites = append(sites, c03Site{n, "mismatched-operand(" + x.Op + ")", func(g *term.Gen) *term.Term {
					var wt reflect.Type
					switch w {
					case "number!string":
						wt = []reflect.Type{term.StrT, term.BoolT, term.IntsT, term.ItemT}[g.R.Intn(4)]
					case "eqnum":
						wt = []reflect.Type{term.StrT, term.BoolT, term.IntsT, term.ItemT}[g.R.Intn(4)]
					case "eqstr":
						wt = []reflect.Type{term.IntT, term.BoolT, term.IntsT, term.FloatT}[g.R.Intn(4)]
					default:
						wt = wrongFor(g.R, w)
					}
					bad := g.Of(wt, 1+g.R.Intn(3))
					if side == 0 {
						return rawCopy(n, bad, n.Sub[1])
					}
					return rawCopy(n, n.Sub[0], bad)
				}})
			}
		case term.KUnary:
			want := "number"
			if x.Op == "not" || x.Op == "!" {
				want = "bool"
			}
			sites = append(sites, c03Site{n, "mismatched-operand(unary " + x.Op + ")", func(g *term.Gen) *term.Term {
				return rawCopy(n, g.Of(wrongFor(g.R, want), 1+g.R.Intn(3)))
			}})
		case term.KIdent:
			sites = append(sites, c03Site{n, "unknown-identifier", func(g *term.Gen) *term.Term {
				return &term.Term{K: term.KIdent, Op: g.R.Pick([]string{"Nope", "a", "Itemz", "ints", "AA"})}
			}})
		case term.KField:
			if !(x.Sub[0].T != nil && x.Sub[0].T.Kind() == reflect.Map) {
				sites = append(sites, c03Site{n, "unknown-field", func(g *term.Gen) *term.Term {
					cp := rawCopy(n, n.Sub...)
					cp.Op = g.R.Pick([]string{"Nope", "id", "Namee", "X"})
					cp.NilSafe = false
					cp.Short = false
					return cp
				}})
			}
		case term.KMethod:
			sites = append(sites, c03Site{n, "unknown-method", func(g *term.Gen) *term.Term {
				cp := rawCopy(n, n.Sub...)
				cp.Op = g.R.Pick([]string{"Nope", "double", "Labell"})
				cp.NilSafe = false
				return cp
			}})
			sites = append(sites, c03Site{n, "wrong-arity(method)", func(g *term.Gen) *term.Term {
				if len(n.Sub) > 1 && g.R.Bool() {
					return rawCopy(n, n.Sub[:len(n.Sub)-1]...)
				}
				return rawCopy(n, append(append([]*term.Term{}, n.Sub...), term.Int(1))...)
			}})
		case term.KCall:
			variadic := x.Op == "FnVar" || x.Op == "Fast"
			sites = append(sites, c03Site{n, "unknown-function", func(g *term.Gen) *term.Term {
				cp := rawCopy(n, n.Sub...)
				cp.Op = g.R.Pick([]string{"Nope", "fnI", "FnIx", "A", "S"})
				return cp
			}})
			if !variadic {
				sites = append(sites, c03Site{n, "wrong-arity(function)", func(g *term.Gen) *term.Term {
					if len(n.Sub) > 0 && g.R.Bool() {
						return rawCopy(n, n.Sub[:len(n.Sub)-1]...)
					}
					return rawCopy(n, append(append([]*term.Term{}, n.Sub...), term.Int(1))...)
				}})
			}
			if len(x.Sub) > 0 && x.Op != "FnAny" && x.Op != "Fast" {
				ai := r.Intn(len(x.Sub))
				sites = append(sites, c03Site{n, "argument-not-assignable(" + x.Op + ")", func(g *term.Gen) *term.Term {
					at := n.Sub[ai].T
					var bad *term.Term
					switch {
					case term.IsNum(at) && (at.Kind() == reflect.Float64 || at.Kind() == reflect.Float32) && g.R.Bool():
						// an int-typed expression that is neither a literal nor
						// + - * / arithmetic is not adapted to a float parameter
						bad = []*term.Term{rawBin("%", rawID("A"), term.Int(2)), rawBin("%", term.Int(7), term.Int(2)), rawID("A"), rawLen(rawID("Ints")), rawIndex(rawID("Ints"), term.Int(0)),
							rawCall("FnI", term.Int(1)), rawID("I64"), rawID("U8")}[g.R.Intn(8)]
					case term.IsNum(at):
						bad = g.Of([]reflect.Type{term.StrT, term.BoolT, term.IntsT}[g.R.Intn(3)], 1+g.R.Intn(3))
					case term.IsStr(at), term.IsBool(at):
						// including integer literals and literal arithmetic
						switch g.R.Intn(4) {
						case 0:
							bad = term.Int(g.R.Intn(5))
						case 1:
							bad = rawBin("+", term.Int(1), term.Int(2))
						case 2:
							bad = rawUn("-", term.Int(3))
						default:
							bad = g.Of([]reflect.Type{term.IntT, term.FloatT, term.IntsT}[g.R.Intn(3)], 1+g.R.Intn(3))
						}
					default:
						switch g.R.Intn(3) {
						case 0:
							bad = term.Int(7)
						case 1:
							bad = rawBin("*", term.Int(2), term.Int(2))
						default:
							bad = g.Of([]reflect.Type{term.StrT, term.BoolT}[g.R.Intn(2)], 1+g.R.Intn(3))
						}
					}
					sub := append([]*term.Term{}, n.Sub...)
					sub[ai] = bad
					return rawCopy(n, sub...)
				}})
			}
		case term.KIndex:
			if ot := x.Sub[0].T; ot != nil && !term.IsAny(ot) {
				switch ot.Kind() {
				case reflect.Slice, reflect.Array:
					if ot.Elem().Kind() == reflect.Interface && r.Bool() {
						// recorded finding: a string index into a sequence of
						// dynamic values is accepted (pinned by TestCheck)
						sites = append(sites, c03Site{n, "string-index-into-sequence-of-dynamic-values", func(g *term.Gen) *term.Term {
							return rawCopy(n, n.Sub[0], g.Of(term.StrT, 1+g.R.Intn(2)))
						}})
					} else {
						wrong := []reflect.Type{term.StrT, term.BoolT, term.FloatT, term.IntsT}
						if ot.Elem().Kind() == reflect.Interface {
							wrong = wrong[1:]
						}
						sites = append(sites, c03Site{n, "index-of-wrong-type(sequence)", func(g *term.Gen) *term.Term {
							return rawCopy(n, n.Sub[0], g.Of(wrong[g.R.Intn(len(wrong))], 1+g.R.Intn(3)))
						}})
					}
				case reflect.Map:
					if ot.Key().Kind() == reflect.String {
						sites = append(sites, c03Site{n, "index-of-wrong-type(map)", func(g *term.Gen) *term.Term {
							return rawCopy(n, n.Sub[0], g.Of([]reflect.Type{term.IntT, term.BoolT, term.FloatT, term.IntsT}[g.R.Intn(4)], 1+g.R.Intn(3)))
						}})
					}
				}
			}
		case term.KSlice:
			if x.Sub[1] != nil || x.Sub[2] != nil {
				sites = append(sites, c03Site{n, "non-integer-slice-bound", func(g *term.Gen) *term.Term {
					bad := g.Of([]reflect.Type{term.StrT, term.BoolT, term.FloatT}[g.R.Intn(3)], 1+g.R.Intn(3))
					if n.Sub[1] != nil && (n.Sub[2] == nil || g.R.Bool()) {
						return rawCopy(n, n.Sub[0], bad, n.Sub[2])
					}
					return rawCopy(n, n.Sub[0], n.Sub[1], bad)
				}})
			}
		case term.KCond:
			sites = append(sites, c03Site{n, "non-boolean-condition", func(g *term.Gen) *term.Term {
				return rawCopy(n, g.Of(wrongFor(g.R, "bool"), 1+g.R.Intn(3)), n.Sub[1], n.Sub[2])
			}})
		case term.KBuiltin:
			if x.Op == "len" {
				sites = append(sites, c03Site{n, "non-collection-argument(len)", func(g *term.Gen) *term.Term {
					return rawCopy(n, g.Of(wrongFor(g.R, "collection"), 1+g.R.Intn(3)))
				}})
			} else {
				sites = append(sites, c03Site{n, "non-collection-argument(" + x.Op + ")", func(g *term.Gen) *term.Term {
					return rawCopy(n, g.Of(wrongFor(g.R, "array"), 1+g.R.Intn(3)), n.Sub[1])
				}})
				if x.Op != "map" {
					sites = append(sites, c03Site{n, "non-boolean-predicate(" + x.Op + ")", func(g *term.Gen) *term.Term {
						return rawCopy(n, n.Sub[0], g.Of(wrongFor(g.R, "bool"), 1+g.R.Intn(2)))
					}})
				}
			}
		}
		for i, s := range x.Sub {
			walk(s, inClosure || (x.K == term.KBuiltin && i == 1))
		}
	}
	walk(t, false)
	return sites
}

func init() {
	runner.Register(&runner.Check{
		ID:    "C03",
		Level: "exploration",
		Rule: "case = a reference-well-typed expression without dynamic operands (exhaustive up to 3/4 nodes, random 3-40 nodes) run on 4-6 environment values and under each result directive, or one single-fault mutant of it (mismatched operand at one operator, unknown identifier/field/method/function, wrong arity, non-assignable argument incl. integer literals and literal arithmetic, non-boolean condition or predicate, non-collection builtin argument, result directive of the wrong kind) that Compile must reject; " +
			"distinct = distinct well-typed sources plus distinct mutant sources",
		Assumptions: []string{
			"reference typing = internal/term constructors (a subset of what the checker admits); index/key type mismatches and membership over maps are not among the demanded rejection classes",
			"run-time failures are classified by message signatures (ClassifyRunErr): failures caused by nil values count as value reasons",
		},
		Phases: []runner.Phase{
			{Name: "corpus", Serial: true, N: func(string) uint64 { return 1 }, Run: c03Corpus},
			{Name: "exhaustive", N: func(string) uint64 { return 64 }, Run: func(c *runner.Ctx, idx uint64) {
				enum := term.NewEnum(false)
				max := 3
				if c.Thorough() {
					max = 4
				}
				tab := enum.Table(nil, max)
				ord := uint64(0)
				for n := 1; n < len(tab); n++ {
					for _, t := range tab[n] {
						ord++
						if ord%64 != idx || t.HasUnspec() {
							continue
						}
						r := runner.NewRng(c.Seed, 3, ord)
						styles, seeds := EnvStyles(r, 4)
						c03Sound(c, term.Print(t, term.PrintOpts{}), styles, seeds, "", t.HasConstDivZero())
					}
				}
			}},
			{Name: "mixed-numeric-arms", N: func(tier string) uint64 {
				if tier == "thorough" {
					return 150000
				}
				return 5000
			}, Run: func(c *runner.Ctx, idx uint64) {
				// every leaf is statically typed, but the arms of a conditional
				// (or the elements of a literal) have different numeric kinds:
				// whatever type the checker reports for such an expression must
				// be the type of the value, and no operator applied to it may
				// fail for a type reason
				r := c.R
				nums := []string{"U", "U8", "U16", "U32", "U64", "I", "I8", "I16", "I32", "I64", "F32", "F64", "A", "X", "1", "2.5", "Ints[0]", "It.ID", "It.Score", "len(Ints)", "FnI(1)", "FnF(1.5)"}
				var mixed func(d int) string
				mixed = func(d int) string {
					a, b := r.Pick(nums), r.Pick(nums)
					if d > 0 && r.Chance(1, 3) {
						a = mixed(d - 1)
					}
					switch r.Intn(5) {
					case 0:
						return fmt.Sprintf("[%s, %s][%d]", a, b, r.Intn(2))
					default:
						return fmt.Sprintf("(%s ? %s : %s)", r.Pick([]string{"P", "Q", "true", "false", "A > 1"}), a, b)
					}
				}
				m := mixed(2)
				var src string
				tag := ""
				cmp := []string{"==", "!=", "<", ">="}
				arith := []string{"+", "-", "*", "/", "**"}
				switch r.Intn(10) {
				case 0:
					src = m
				case 1:
					src = fmt.Sprintf("%s %s %s", m, r.Pick(cmp), r.Pick(nums))
				case 2:
					src = fmt.Sprintf("%s %s %s", r.Pick(nums), r.Pick(cmp), m)
				case 3:
					if r.Bool() {
						src = fmt.Sprintf("%s %s %s", m, r.Pick(cmp), mixed(1))
					} else {
						src, tag = fmt.Sprintf("%s %s %s", m, r.Pick(arith), mixed(1)), "mixed-arith:"
					}
				case 4:
					src = "-" + m
				case 5:
					src = fmt.Sprintf("%s in [1, 2, 3]", m)
				case 6:
					src = fmt.Sprintf("%s in 1..3", m)
				case 7:
					src = fmt.Sprintf("[%s, %s]", m, r.Pick(nums))
				case 8:
					// recorded finding: arithmetic between a dynamically typed
					// operand and a typed one is given the typed operand's type
					src, tag = fmt.Sprintf("%s %s %s", m, r.Pick(arith), r.Pick(nums)), "mixed-arith:"
				default:
					src, tag = fmt.Sprintf("%s %s %s", r.Pick(nums), r.Pick(arith), m), "mixed-arith:"
				}
				styles, seeds := EnvStyles(r, 4)
				c.Count("mixed_arm_cases", 1)
				c03Sound(c, src, styles, seeds, tag, false)
			}},
			{Name: "random", N: func(tier string) uint64 {
				if tier == "thorough" {
					return 1200000
				}
				return 30000
			}, Run: func(c *runner.Ctx, idx uint64) {
				r := c.R
				g := term.NewGen(r, false)
				var t *term.Term
				func() {
					defer func() {
						if rec := recover(); rec != nil {
							c.Inconclusive(fmt.Sprint(rec))
						}
					}()
					t = g.Top(3 + r.Intn(38))
				}()
				if t == nil || t.HasUnspec() {
					return
				}
				src := term.Print(t, term.PrintOpts{})
				styles, seeds := EnvStyles(r, 6)
				c03Sound(c, src, styles, seeds, "", t.HasConstDivZero())
				if idx%2 == 0 {
					c03Directive(c, t, src, styles[:3], seeds[:3])
				}
				if idx%5 == 4 {
					// expressions without a static kind (dynamic operands, mixed
					// conditional arms): whatever a directive accepts must still
					// return exactly the directive's type
					func() {
						defer func() { recover() }()
						ga := term.NewGen(r, true)
						ta := ga.Of([]reflect.Type{term.AnyT, term.AnyT, term.ArrT, term.MapT}[r.Intn(4)], 2+r.Intn(12))
						if r.Bool() {
							// index into an array literal: statically interface{}
							ta, _ = term.Index(ga.Sc, term.Array(ga.Of(term.BoolT, 2), ga.Of(term.IntT, 2), ga.Of(term.StrT, 1)), term.Int(r.Intn(3)))
						}
						if ta != nil {
							c03Directive(c, ta, term.Print(ta, term.PrintOpts{}), styles[:3], seeds[:3])
						}
					}()
				}
				// single-fault mutants
				sites := c03Sites(t, r)
				for k := 0; k < 3 && len(sites) > 0; k++ {
					s := sites[r.Intn(len(sites))]
					var mut *term.Term
					func() {
						defer func() { recover() }()
						gm := term.NewGen(r, false)
						bad := s.mk(gm)
						mut = replaceNode(t, s.node, func() *term.Term { return bad })
					}()
					if mut == nil {
						continue
					}
					msrc := term.Print(mut, term.PrintOpts{})
					c.Begin(msrc)
					_, co := SafeCompile(msrc, expr.Env(envs.Env{}))
					c.Eval(1)
					c.Distinct("mutant|" + msrc)
					c.SetAdd("mutant_classes", s.class)
					if co.Panic != nil {
						c.Violate("mutant-compile-panic", fmt.Sprint(co.Panic), map[string]interface{}{"source": msrc, "class": s.class})
						continue
					}
					if co.Err == nil {
						c.Violate("ill-typed-accepted:"+s.class, "Compile accepted an expression with one typing fault ("+s.class+")",
							map[string]interface{}{"mutant": msrc, "original": src, "class": s.class})
					} else {
						c.Count("mutants_rejected", 1)
					}
				}
				if c.WantSample() {
					c.Sample(map[string]interface{}{"source": src, "static_type": typeName(t.T), "mutation_sites": len(sites)})
				}
			}},
		},
		Post: func(a *runner.Aggregate) []string {
			var out []string
			if a.Counters["dynamic_type_equals_static"] == 0 || a.Counters["mutants_rejected"] == 0 || a.Counters["directive_results"] == 0 {
				out = append(out, "no dynamic type compared, no mutant rejected or no directive result observed")
			}
			if len(a.Sets["mutant_classes"]) < 20 {
				out = append(out, fmt.Sprintf("only %d mutant classes exercised", len(a.Sets["mutant_classes"])))
			}
			return out
		},
	})
}

// c03Corpus: fixed cases, including the inputs of the recorded findings.
func c03Corpus(c *runner.Ctx, idx uint64) {
	styles, seeds := EnvStyles(runner.NewRng(c.Seed, 33), 4)
	sound := []struct{ tag, src string }{
		{"", "A + B"}, {"", "FnI(1) + FnII(A, 2)"}, {"", "FnF(1)"}, {"", "FnF(-1)"}, {"", "FnU8(255)"}, {"", "FnI64(7)"}, {"", "Half(2)"}, {"", "FnVar(1, 2, 3)"}, {"", "It.Plus(2)"},
		{"", "Ints[0:2]"}, {"", "len(filter(Ints, {# > 0}))"}, {"", "count(Items, {.Flag})"}, {"", "PIt.Label()"}, {"", "A in Ints"}, {"", "S in MI"}, {"", "FnInts(Ints)"}, {"", "FnInts(1..3)"},
		{"corpus:filter:", "filter(Ints, {# > 0})"}, {"corpus:map:", "map(Ints, {# * 2})"}, {"corpus:map-str:", "map(Items, {.Name})"},
		{"corpus:filter-arg:", "FnInts(filter(Ints, {# > 0}))"}, {"corpus:map-arg:", "FnInts(map(Ints, {# + 1}))"},
		{"corpus:uint-arg-arith:", "FnU8(A + 1)"}, {"corpus:uint-arg-arith:", "FnU8(1 + A)"},
		{"", "FnPIt(nil)"}, {"", "FnPIt(PIt)"}, {"", "FnPIt(NilIt)"}, {"", "FnPIt(nil) + FnPIt(PIt)"}, {"", "S in MI"}, {"", "\"a\" in MI"}, {"", "{(S): 2}"}, {"", "{(S + \"k\"): A}.ak"}, {"", "EqAny(nil, 1)"}, {"", "FnAny(nil)"}, {"", "FnInts(nil)"},
	}
	for _, s := range sound {
		c03Sound(c, s.src, styles, seeds, s.tag, false)
	}
	// named scalar types
	ne := NamedEnv{MyI: 3, MyS: "x", A: 3}
	for _, src := range []string{"MyI == 3", "MyI + 1", "MyI < 5", "MyS == \"x\"", "MyS + \"y\"", "-MyI", "MyI == A"} {
		c.Begin(src)
		p, co := SafeCompile(src, expr.Env(NamedEnv{}))
		c.Eval(1)
		if co.Failed() {
			c.Count("named_scalar_rejected", 1)
			continue
		}
		o := SafeRun(p, ne)
		c.Eval(1)
		if o.Panic != nil {
			c.Violate("run-panic", fmt.Sprint(o.Panic), map[string]interface{}{"source": src})
		} else if o.Err != nil && ClassifyRunErr(o.Err) == ClsType {
			c.Violate("corpus:named-scalar:type-failure", "an expression over a named scalar type (type MyInt int) is accepted and fails for a type reason: "+firstLine(o.Err.Error()),
				map[string]interface{}{"source": src, "environment": "struct{MyI MyInt; MyS MyStr; A int}", "run": o.String()})
		}
	}
	// accepted calls and slices that must simply work (a failure with a nil in
	// its message is otherwise counted as a value reason)
	for _, src := range []string{"MS.a + \"!\" == \"x!\" and MI.a + 1 == 2", "MI.a + 1 == 2 and MS.a + \"!\" == \"x!\"", "[MI.foobar, MS.foobar, MA.a]", "SumF(1, 2) + SumF()", "FnPIt(nil)", "FnPIt(nil) + 1", "FnInts(nil)", "FnPIt(NilIt)", "It.Plus(1)", "FnInts(Arr3[0:2])", "Arr3[1:]", "Arr3[0:2] == [7, 8]", "len(Arr3[:1])", "ArrS[0:1]"} {
		c.Begin("must-work: " + src)
		p, co := SafeCompile(src, expr.Env(envs.Env{}))
		c.Eval(1)
		if co.Failed() {
			c.Violate("well-typed-rejected:corpus:"+src, "rejected: "+co.String(), map[string]interface{}{"source": src})
			continue
		}
		e := envs.New(&envs.Log{})
		envs.Fill(e, 3, runner.NewRng(11))
		o := SafeRun(p, *e)
		c.Eval(1)
		ct, _, _ := checkerType(src, envs.Env{})
		switch {
		case o.Failed():
			c.Violate("corpus:must-work-failed:"+src, "an accepted, fully typed expression failed: "+o.String(), map[string]interface{}{"source": src, "run": o.String()})
		case ct != nil && ct.Kind() != reflect.Interface && o.Val != nil && reflect.TypeOf(o.Val) != ct:
			c.Violate("corpus:"+c03ResultSig(ct, reflect.TypeOf(o.Val))+":"+src, fmt.Sprintf("the checker reported %v, the run returned %T", ct, o.Val), map[string]interface{}{"source": src})
		}
	}
	// a declared member that is not a function is not callable, whatever the options
	for _, src := range []string{"A()", "S(1)", "Ints(0)", "It()"} {
		c.Begin("not-a-function: " + src)
		_, co := SafeCompile(src, expr.Env(envs.Env{}), expr.AllowUndefinedVariables())
		c.Eval(1)
		if co.Panic != nil {
			c.Violate("mutant-compile-panic", fmt.Sprint(co.Panic), map[string]interface{}{"source": src})
		} else if co.Err == nil {
			c.Violate("ill-typed-accepted:call-of-non-function-with-AllowUndefinedVariables", "Compile accepted a call of a declared member that is not a function: "+src, map[string]interface{}{"mutant": src})
		} else {
			c.Count("mutants_rejected", 1)
		}
	}
	// a conditional with a nil arm under a result directive: whatever is
	// accepted returns exactly the directive's type, for either branch
	for _, d := range []struct {
		name string
		opt  expr.Option
		want reflect.Type
		srcs []string
	}{
		{"AsBool", expr.AsBool(), term.BoolT, []string{"P ? nil : true", "P ? true : nil", "Q ? nil : P", "P ? nil : nil"}},
		{"AsInt64", expr.AsInt64(), int64T, []string{"P ? nil : 1", "Q ? A : nil"}},
		{"AsFloat64", expr.AsFloat64(), float64T, []string{"P ? nil : 1.5", "P ? X : nil"}},
	} {
		for _, src := range d.srcs {
			c.Begin(d.name + ": " + src)
			p, co := SafeCompile(src, expr.Env(envs.Env{}), d.opt)
			c.Eval(1)
			if co.Failed() {
				c.Count("nil_arm_directive_rejected", 1)
				continue
			}
			for _, pv := range []bool{true, false} {
				e := envs.New(&envs.Log{})
				envs.Fill(e, 3, runner.NewRng(7))
				e.P, e.Q = pv, pv
				o := SafeRun(p, *e)
				c.Eval(1)
				c.Count("directive_results", 1)
				if o.Panic != nil {
					c.Violate("run-panic", fmt.Sprint(o.Panic), map[string]interface{}{"source": src, "directive": d.name})
				} else if o.Err == nil && reflect.TypeOf(o.Val) != d.want {
					c.Violate("directive-result-type:"+d.name+":nil-arm", fmt.Sprintf("%s accepted `%s` and the run returned %s", d.name, src, o),
						map[string]interface{}{"source": src, "directive": d.name, "P": pv, "run": o.String()})
				} else if o.Err != nil && ClassifyRunErr(o.Err) == ClsType {
					c.Violate("directive-type-failure:"+d.name+":nil-arm", fmt.Sprintf("%s accepted `%s` and the run failed for a type reason: %s", d.name, src, firstLine(o.Err.Error())),
						map[string]interface{}{"source": src, "directive": d.name, "P": pv, "run": o.String()})
				}
			}
		}
	}
	// pointers to scalars and to collections
	one, two, str, str2, fl, bl := 1, 1, "a", "a", 1.5, true
	ints, arr, mp := []int{1, 2}, [2]int{1, 2}, map[string]int{"a": 1}
	pe := PtrEnv{PI: &one, PI2: &two, PS: &str, PS2: &str2, PF: &fl, PB: &bl, A: 1, S: "a", PInts: &ints, PArr: &arr, PMap: &mp}
	for _, src := range []string{"PI == PI2", "PI != PI2", "PI == A", "A == PI", "PI == 1", "PI == nil", "NilPI == nil", "PI == NilPI", "PS == PS2", "PS == S", "PS == \"a\"", "PS != nil", "PF == PF", "PF == 1.5", "PB == PB",
		"PI + 1", "PI < PI2", "-PI", "PS + \"b\"", "PS contains \"a\"", "PS matches \"a\"", "PI in [1, 2]", "PS in [\"a\"]", "PI in 1..3", "not PB", "PB and PB", "PB ? 1 : 2", "PB == true", "len(PS)", "len(PInts)", "PInts[0]", "PInts[0:1]",
		"PArr[0]", "len(PArr)", "PMap.a", "PMap[\"a\"]", "\"a\" in PMap", "1 in PInts", "map(PInts, {# + 1})", "all(PArr, {# > 0})", "[PI, PS]", "PI ?: 1", "FnAny(PI)", "PI == PI ? PS : PS2"} {
		c.Begin("ptr-env: " + src)
		p, co := SafeCompile(src, expr.Env(PtrEnv{}))
		c.Eval(1)
		if co.Panic != nil {
			c.Violate("compile-panic", fmt.Sprint(co.Panic), map[string]interface{}{"source": src, "environment": "PtrEnv"})
			continue
		}
		if co.Failed() {
			c.Count("pointer_scalar_rejected", 1)
			continue
		}
		c.Distinct("ptr|" + src)
		o := SafeRun(p, pe)
		c.Eval(1)
		if o.Panic != nil {
			c.Violate("run-panic", fmt.Sprint(o.Panic), map[string]interface{}{"source": src})
		} else if o.Err != nil && ClassifyRunErr(o.Err) == ClsType {
			c.Violate("corpus:pointer-operand:type-failure:"+src, "an expression over pointers to scalars/collections is accepted and fails for a type reason: "+firstLine(o.Err.Error()),
				map[string]interface{}{"source": src, "environment": "PtrEnv (all pointers non-nil except NilPI)", "run": o.String()})
		} else {
			c.Count("pointer_operand_runs", 1)
		}
	}
	// mutants of the classes the repaired defects belonged to
	for _, src := range []string{"FnS(1)", "FnI(X + X)", "FnI(S + S)", "FnS(1 + 2)", "FnB(-1)", "FnItem(3)", "FnS(-A)", "FnI(X * 2)", "P ? 1 : 2 + S", "1 + \"a\"", "not 1", "len(1)", "all(A, {true})", "filter(Ints, {1})", "Missing + 1", "It.Nope", "It.Nope()", "FnI()", "FnI(1, 2)", "A ? 1 : 2", "\"a\" < 1", "S and P", "1 .. 2.5",
		"Ints[\"a\"]", "Ints[S]", "Strs[X]", "Items[P].ID", "MI[1]", "MI[A]", "MI[P]", "Ints[\"a\":]", "Ints[:X]", "(1..3)[S]", "Anys[P]", "[1, 2][1.5]",
		"Half(A % 2)", "Half(7 % 2)", "FnF(A)", "FnF(len(Ints))", "FnF32(I64)", "FnI(X)", "FnI64(X * 2)", "FnU8(S)",
		// membership in a map needs a key-typed left operand; maps cannot be sliced; nil is not an int, string or bool argument; computed map keys are strings
		"A in MI", "1 in MI", "A not in MI", "X in MI", "P in MI", "MI[0:1]", "MI[:]", "{\"a\": 1}[:]", "MA[1:]", "FnI(nil)", "A + FnI(nil)", "FnS(nil)", "FnB(nil)", "FnF(nil)", "FnItem(nil)", "FnII(1, nil)",
		"{(1): 2}", "{(A): 2}", "{(P): 2}", "{(X): 1, \"b\": 2}", "all(Ints, {nil})", "filter(Ints, {nil})", "count(Items, {nil})",
		// the same member name on two unnamed map types; ordering against nil
		"MI.a + MS.a", "MS.a + MI.a", "MS.a - 1", "MI.a contains \"x\"", "[MS.a, MI.a][0] == nil or MI.a + MS.a == 1", "S < nil", "nil >= S", "any(Strs, {# <= nil})", "A < nil", "nil > X", "S > \"a\" and \"z\" < nil"} {
		c.Begin(src)
		_, co := SafeCompile(src, expr.Env(envs.Env{}))
		c.Eval(1)
		c.Distinct("mutant|" + src)
		if co.Panic != nil {
			c.Violate("mutant-compile-panic", fmt.Sprint(co.Panic), map[string]interface{}{"source": src})
		} else if co.Err == nil {
			c.Violate("ill-typed-accepted:corpus:"+src, "Compile accepted an ill-typed expression", map[string]interface{}{"mutant": src})
		} else {
			c.Count("mutants_rejected", 1)
		}
	}
	_ = strings.TrimSpace
}
