package checks

import (
	"fmt"
	"math"
	"reflect"
	"strings"

	"github.com/antonmedv/expr"
	"github.com/antonmedv/expr/vm"

	"verif/internal/envs"
	"verif/internal/mon"
	"verif/internal/ref"
	"verif/internal/runner"
	"verif/internal/term"
)

// C05: emitted bytecode is well-formed and stack-balanced.
// (a) artifact monitor: every compiled program is decoded by the harness's own
// decoder; (b) invariant at the hook: every executed instruction starts on a
// decoder boundary with enough values on the stack, successful runs end with
// exactly the result and no open scope.

func c05Program(c *runner.Ctx, src string, p *vm.Program, envsList []interface{}, what string) {
	dec, errs := mon.Decode(p)
	c.Count("programs_decoded", 1)
	c.Count("instructions_decoded", int64(dec.Count))
	for op := range dec.Ops {
		c.SetAdd("opcodes_decoded", op)
	}
	if len(errs) > 0 {
		c.Violate("decode:"+sigWords(errs[0]), "compiled program is malformed: "+strings.Join(errs, "; "),
			map[string]interface{}{"source": clip(src, 2000), "options": what, "defects": errs, "bytecode_len": len(p.Bytecode), "constants": len(p.Constants)})
		return
	}
	for _, env := range envsList {
		// one long-lived VM per worker: failing runs leave scopes and stack
		// garbage behind that the next run must not see
		m := c05VM
		tr := mon.NewTrace(p, dec)
		_, err, pan := mon.RunTraced(m, p, env, tr)
		c.Eval(1)
		c.Count("step_events", int64(tr.Steps))
		c.Count("runs_traced", 1)
		for op := range tr.Ops {
			c.SetAdd("opcodes_executed", op)
		}
		if pan != nil {
			c.Violate("run-panic", fmt.Sprintf("panic escaped VM.Run: %v", pan), map[string]interface{}{"source": clip(src, 2000), "options": what})
			continue
		}
		if err == nil {
			c.Count("runs_ok", 1)
			if len(m.Stack()) != 0 {
				tr.Errs = append(tr.Errs, fmt.Sprintf("VM.Stack() holds %d values after a successful run", len(m.Stack())))
			}
			if m.Scope() != nil {
				tr.Errs = append(tr.Errs, "VM.Scope() is still open after a successful run")
			}
		} else {
			c.Count("runs_failed", 1)
		}
		if !tr.Ended {
			tr.Errs = append(tr.Errs, "run-end event missing")
		}
		if len(tr.Errs) > 0 {
			c.Violate("trace:"+sigWords(tr.Errs[0]), "stack discipline violated: "+strings.Join(tr.Errs, "; "),
				map[string]interface{}{"source": clip(src, 2000), "options": what, "defects": tr.Errs, "run_error": fmt.Sprint(err)})
		}
	}
}

var c05VM = &vm.VM{}

// c05SweepN cases sweep operand sizes 2^16-50 .. 2^16+49 for 8 constructs.
const c05SweepN = 800

func clip(s string, n int) string {
	if len(s) > n {
		return s[:n] + fmt.Sprintf("…(%d bytes)", len(s))
	}
	return s
}

// sigWords keeps the non-numeric words of a defect message.
func sigWords(s string) string {
	s = errKeyRe.ReplaceAllString(s, "#")
	if len(s) > 70 {
		s = s[:70]
	}
	return s
}

// bigOperand returns the source of an int expression compiling to exactly
// 3+n bytes of bytecode... (n bytes after the leading constant), and the
// coefficient c such that its value is c*leaf.
func bigOperand(n int, leaf string) (string, int) {
	// each " + X" is OpFetch(3) + OpAdd(1) = 4 bytes; each unary minus on the
	// last summand adds one byte (OpNegate)
	k := n / 4
	if k < 1 {
		k = 1
	}
	extra := n % 4
	var sb strings.Builder
	sb.Grow(k*(len(leaf)+3) + 16)
	sb.WriteString("(0")
	for i := 0; i < k-1; i++ {
		sb.WriteString(" + ")
		sb.WriteString(leaf)
	}
	sb.WriteString(" + ")
	for i := 0; i < extra; i++ {
		sb.WriteString("- ")
	}
	sb.WriteString(leaf)
	sb.WriteString(")")
	coef := k - 1
	if extra%2 == 0 {
		coef++
	} else {
		coef--
	}
	return sb.String(), coef
}

func init() {
	runner.Register(&runner.Check{
		ID:    "C05",
		Level: "exploration",
		Rule: "case = one compiled program (source x optimizer setting) decoded by the harness's decoder and traced instruction by instruction on 4 environment values; programs: exhaustive small terms, random typed terms of 3-60 nodes, and a large-program family whose branches/bodies/operands are 60-140 KiB or that use >65535 constants; " +
			"distinct = distinct (source, optimizer setting) programs with at least 3 instructions",
		Assumptions: []string{
			"the operand widths and pop counts of the instruction set are restated in internal/mon/bytecode.go",
			"the trace monitor sees only executed paths; the decoder checks all of the program structurally",
		},
		Phases: []runner.Phase{
			{
				Name: "selftest", Serial: true,
				N: func(string) uint64 { return 1 },
				Run: func(c *runner.Ctx, idx uint64) {
					// the decoder must reject hand-made defects
					p, _ := expr.Compile("A > 1 ? 2 : 3", expr.Env(envs.Env{}), expr.Optimize(false))
					if p == nil {
						c.Inconclusive("selftest program does not compile")
						return
					}
					mut := func(f func(q *vm.Program)) []string {
						q := &vm.Program{Source: p.Source, Locations: p.Locations, Constants: append([]interface{}{}, p.Constants...), Bytecode: append([]byte{}, p.Bytecode...)}
						f(q)
						_, errs := mon.Decode(q)
						return errs
					}
					if e := mut(func(q *vm.Program) {}); len(e) != 0 {
						c.Inconclusive("decoder rejects a good program: " + strings.Join(e, ";"))
					}
					if e := mut(func(q *vm.Program) { q.Bytecode[0] = 0xEE }); len(e) == 0 {
						c.Inconclusive("decoder accepts an unknown opcode")
					}
					if e := mut(func(q *vm.Program) { q.Bytecode = q.Bytecode[:len(q.Bytecode)-1] }); len(e) == 0 {
						c.Inconclusive("decoder accepts a truncated operand")
					}
					if e := mut(func(q *vm.Program) { q.Constants = q.Constants[:0] }); len(e) == 0 {
						c.Inconclusive("decoder accepts an out-of-range constant")
					}
					if e := mut(func(q *vm.Program) {
						for i := 0; i < len(q.Bytecode); i++ {
							if q.Bytecode[i] == vm.OpJumpIfFalse {
								q.Bytecode[i+1] += 2
								break
							}
						}
					}); len(e) == 0 {
						c.Inconclusive("decoder accepts a jump into an operand")
					}
					c.Count("selftests", 5)
				},
			},
			{
				Name: "exhaustive",
				N:    func(string) uint64 { return 64 },
				Run: func(c *runner.Ctx, idx uint64) {
					enum := term.NewEnum(true)
					max := 3
					if c.Thorough() {
						max = 4
					}
					tab := enum.Table(nil, max)
					ord := uint64(0)
					for n := 1; n < len(tab); n++ {
						for _, t := range tab[n] {
							ord++
							if ord%64 != idx {
								continue
							}
							c05Term(c, t, runner.NewRng(c.Seed, 5, ord))
						}
					}
				},
			},
			{
				Name: "random",
				N: func(tier string) uint64 {
					if tier == "thorough" {
						return 1200000
					}
					return 30000
				},
				Run: func(c *runner.Ctx, idx uint64) {
					g := term.NewGen(c.R, idx%2 == 0)
					size := []int{3, 6, 10, 16, 25, 40, 60}[c.R.Intn(7)]
					var t *term.Term
					func() {
						defer func() {
							if r := recover(); r != nil {
								c.Inconclusive(fmt.Sprint(r))
							}
						}()
						t = g.Top(size)
					}()
					if t != nil {
						c05Term(c, t, c.R)
					}
				},
			},
			{
				// range bounds and indexes whose run-time value lies outside the
				// int domain take their own paths through the VM
				Name: "edge-operands", Serial: true,
				N:   func(string) uint64 { return 1 },
				Run: c05EdgeOperands,
			},
			{
				Name: "large",
				N: func(tier string) uint64 {
					if tier == "thorough" {
						return c05SweepN + 1200
					}
					return c05SweepN + 48
				},
				Run: c05Large,
			},
		},
		Post: func(a *runner.Aggregate) []string {
			var out []string
			if a.Counters["step_events"] == 0 {
				out = append(out, "no step events observed: the hook is not reached")
			}
			if a.Counters["large_programs_compiled"]+a.Counters["large_programs_rejected"] == 0 {
				out = append(out, "no large program was exercised")
			}
			return out
		},
	})
}

type c05Edge struct {
	F, H       float64
	G          float32
	U          uint64
	V          uint
	A, B       int
	I64        int64
	AnyF, AnyG interface{}
	Ints       []int
}

var c05EdgeSources = []string{
	"1..F", "F..5", "F..H", "F..G", "G..F", "U..5", "1..U", "U..U", "V..A", "A..F", "I64..F", "AnyF..AnyG", "AnyF..5", "1..AnyG", "A..B",
	"len(F..A)", "len(U..5) + len(1..F)", "map(U..5, {#})", "[1..F, 2]", "[0, F..5, U..5]", "A in 1..F", "A in U..5", "A not in F..H", "(F..5)[0:1]", "(1..F)[:]",
	"count(F..5, {# > 0}) + count(1..A, {# > 0})", "map(1..A, {len(#..F)})", "filter(1..A, {# in U..5})", "all(1..A, {len(F..#) == 0})",
	"{\"a\": 1..F, \"b\": U..5}", "P(1..F)", "P(F..5) + P(U..5)", "1..F == F..1", "len(F..5) > 0 ? 1..F : U..5", "Ints[A:B]", "Ints[A:]", "len(Ints[:B])",
}

func (c05Edge) P(x []int) int { return len(x) }

func c05EdgeOperands(c *runner.Ctx, idx uint64) {
	fs := []float64{-1e30, 1e30, 9223372036854775807, -9223372036854775808, -9.3e18, math.NaN(), math.Inf(1), math.Inf(-1), 2.5, 3, -2, 0}
	us := []uint64{math.MaxUint64, 1 << 63, 1<<63 - 1, 5, 0}
	var es []interface{}
	for i, f := range fs {
		for j, u := range us {
			h := fs[(i+j+1)%len(fs)]
			e := c05Edge{F: f, H: h, G: float32(h), U: u, V: uint(u), A: 3 - j, B: i - 2, I64: int64(u >> 1), AnyF: f, AnyG: u, Ints: []int{1, 2, 3}}
			if (i+j)%3 == 0 {
				e.AnyF, e.AnyG = u, float32(f)
			}
			es = append(es, e)
		}
	}
	for _, src := range c05EdgeSources {
		// typed: the checker sees the struct; untyped: every identifier is
		// resolved at run time, which is how a float reaches a range bound
		for oi, on := range []string{"typed optimize", "typed no-optimize", "untyped optimize", "untyped no-optimize"} {
			var opts []expr.Option
			if oi < 2 {
				opts = append(opts, expr.Env(c05Edge{}))
			}
			if oi%2 == 1 {
				opts = append(opts, expr.Optimize(false))
			}
			c.Begin(src)
			p, co := SafeCompile(src, opts...)
			c.Eval(1)
			if co.Panic != nil {
				c.Violate("compile-panic", "Compile panicked", map[string]interface{}{"source": src, "options": on, "panic": fmt.Sprint(co.Panic)})
				continue
			}
			if co.Failed() || p == nil {
				c.Count("edge_sources_rejected", 1)
				continue
			}
			c.Count("edge_programs", 1)
			c.Distinct("edge|" + src + "|" + on)
			c05Program(c, src, p, es, "edge-operands "+on)
		}
	}
}

func c05Term(c *runner.Ctx, t *term.Term, r *runner.Rng) {
	src := term.Print(t, term.PrintOpts{})
	c.Begin(src)
	styles, seeds := EnvStyles(r, 4)
	var es []interface{}
	for i := range styles {
		e := envs.New(&envs.Log{})
		envs.Fill(e, styles[i], runner.NewRng(seeds[i]))
		es = append(es, *e)
	}
	for oi, opts := range [][]expr.Option{{expr.Env(envs.Env{})}, {expr.Env(envs.Env{}), expr.Optimize(false)}} {
		p, co := SafeCompile(src, opts...)
		c.Eval(1)
		if co.Failed() || p == nil {
			c.Count("compile_failed", 1)
			continue
		}
		what := []string{"optimize", "no-optimize"}[oi]
		if len(p.Bytecode) >= 3 {
			c.Distinct(src + "|" + what)
		}
		c05Program(c, src, p, es, what)
	}
	// map environment (OpFetchMap) and result casts (OpCast), now and then
	if r.Intn(4) == 0 {
		e := envs.New(&envs.Log{})
		envs.Fill(e, 3, runner.NewRng(seeds[0]))
		m := envs.AsMap(e)
		opts := []expr.Option{expr.Env(m)}
		what := "map-env"
		if term.IsNum(t.T) {
			if r.Bool() {
				opts = append(opts, expr.AsInt64())
				what += "+AsInt64"
			} else {
				opts = append(opts, expr.AsFloat64())
				what += "+AsFloat64"
			}
		}
		p, co := SafeCompile(src, opts...)
		c.Eval(1)
		if !co.Failed() && p != nil {
			c.Distinct(src + "|" + what)
			c05Program(c, src, p, []interface{}{m}, what)
		}
	}
	if c.WantSample() {
		c.Sample(map[string]interface{}{"source": src})
	}
}

// c05Large builds programs around the 16-bit limits. Rule: Compile returns an
// error, or the program is well-formed, obeys the trace monitor and returns
// the reference value on both branch outcomes.
func c05Large(c *runner.Ctx, idx uint64) {
	r := c.R
	sizes := []int{60000, 65000, 65520, 65532, 65536, 65540, 66000, 70000, 90000, 131000, 140000}
	n := sizes[r.Intn(len(sizes))]
	kind := idx % 12
	if idx < c05SweepN {
		// boundary sweep: every operand size around 2^16, byte by byte, for
		// each jump-carrying construct
		kind = idx % 8
		n = 65536 - 50 + int(idx/8)
	}
	leaf := r.Pick([]string{"A", "B", "Z"})
	big, coef := bigOperand(n, leaf)
	small := "7"
	var src string
	switch kind {
	case 0:
		src = fmt.Sprintf("P ? %s : %s", big, small) // forward jump over Exp1 (OpJumpIfFalse)
	case 1:
		src = fmt.Sprintf("P ? %s : %s", small, big) // OpJump over Exp2
	case 2:
		src = fmt.Sprintf("P and %s > 0", big)
	case 3:
		src = fmt.Sprintf("P or %s > 0", big)
	case 4:
		src = fmt.Sprintf("all(Ints2, {# + %s >= #})", big) // loop body: backward jump
	case 5:
		src = fmt.Sprintf("map(Ints2, {# + %s})", big)
	case 6:
		src = fmt.Sprintf("filter(Ints2, {# + %s > 0})", big)
	case 7:
		src = fmt.Sprintf("count(Ints2, {# > 0 ? %s > 0 : false})", big)
	case 8:
		src = fmt.Sprintf("any(Ints2, {Q}) ? %s : none(Ints2, {# > %s})", big, big)
	case 9:
		src = fmt.Sprintf("one(Ints2, {%s == #})", big)
	case 10:
		// many distinct constants
		k := []int{65000, 65534, 65535, 65536, 65537, 70000}[r.Intn(6)]
		var sb strings.Builder
		sb.WriteString("len([")
		for i := 0; i < k; i++ {
			if i > 0 {
				sb.WriteByte(',')
			}
			fmt.Fprintf(&sb, "%d.5", i)
		}
		sb.WriteString("])")
		src = sb.String()
	case 11:
		// deep nesting of builtins with a big innermost body
		big, coef = bigOperand(n/2, leaf)
		src = fmt.Sprintf("count(Ints2, {any(Ints2, {all(Ints2, {# + %s >= 0})})})", big)
	}
	c.Begin(fmt.Sprintf("large kind=%d n=%d leaf=%s", kind, n, leaf))
	saveBudget := vm.MemoryBudget
	vm.MemoryBudget = 10000000
	defer func() { vm.MemoryBudget = saveBudget }()
	for oi, opts := range [][]expr.Option{{expr.Env(envs.Env{}), expr.Optimize(false)}, {expr.Env(envs.Env{})}} {
		what := []string{"no-optimize", "optimize"}[oi]
		p, co := SafeCompile(src, opts...)
		c.Eval(1)
		if co.Panic != nil {
			c.Violate("large-compile-panic", fmt.Sprintf("Compile panicked on a large program: %v", co.Panic), map[string]interface{}{"kind": kind, "bytes": n, "options": what})
			continue
		}
		if co.Err != nil {
			c.Count("large_programs_rejected", 1)
			c.SetAdd("large_reject_messages", errKeyOf(co.Err))
			continue
		}
		c.Count("large_programs_compiled", 1)
		c.Distinct(fmt.Sprintf("large|%d|%d|%s|%s", kind, n, leaf, what))
		dec, errs := mon.Decode(p)
		if len(errs) > 0 {
			c.Violate("large-decode:"+sigWords(errs[0]), "large program is malformed: "+strings.Join(errs, "; "),
				map[string]interface{}{"kind": kind, "bytes": n, "options": what, "source_head": clip(src, 200), "bytecode_len": len(p.Bytecode)})
			continue
		}
		// drive both branch outcomes
		for _, pv := range []bool{true, false} {
			pair := NewEnvPair(3, r.U64())
			for _, e := range []*envs.Env{pair.Real, pair.Ref} {
				e.P, e.Q = pv, !pv
				e.A, e.B = 1, 2
				e.Ints2 = []int{3, -1, 4}
			}
			m := &vm.VM{}
			tr := mon.NewTrace(p, dec)
			out, err, pan := mon.RunTraced(m, p, *pair.Real, tr)
			c.Eval(1)
			c.Count("step_events", int64(tr.Steps))
			c.Count("large_runs", 1)
			if pan != nil {
				c.Violate("large-run-panic", fmt.Sprint(pan), map[string]interface{}{"kind": kind, "bytes": n, "options": what})
				continue
			}
			if len(tr.Errs) > 0 {
				c.Violate("large-trace:"+sigWords(tr.Errs[0]), "stack discipline violated in a large program: "+strings.Join(tr.Errs, "; "),
					map[string]interface{}{"kind": kind, "bytes": n, "options": what, "P": pv, "run_error": fmt.Sprint(err), "source_head": clip(src, 200)})
				continue
			}
			// reference value: parse-free — evaluate the same shape with the
			// big operand replaced by its closed form k*leaf.
			want, ok := c05LargeWant(kind, coef, leaf, pair.Ref, src)
			if !ok {
				continue
			}
			if err != nil || mon.Canon(out) != mon.Canon(want) {
				c.Violate("large-value", fmt.Sprintf("large program returned %v (err %v), want %s", mon.Short(out), err, mon.Short(want)),
					map[string]interface{}{"kind": kind, "bytes": n, "options": what, "P": pv, "source_head": clip(src, 200)})
			}
		}
	}
	if c.WantSample() {
		c.Sample(map[string]interface{}{"large_kind": kind, "operand_bytes": n, "source_head": clip(src, 120)})
	}
}

// c05LargeWant computes the expected value of a large program through the
// reference evaluator on an equivalent small term (the big operand "(0 + X +
// X + ...)" with k summands equals k*X).
func c05LargeWant(kind uint64, k int, leaf string, e *envs.Env, src string) (interface{}, bool) {
	if kind == 10 {
		// len of a literal array with k elements
		return strings.Count(src, ",") + 1, true
	}
	sc := &term.Scope{Env: envs.EnvType}
	mk := func(sc *term.Scope) *term.Term {
		id, _ := term.Ident(sc, leaf)
		t, _ := term.Binary(sc, "*", term.Int(k), id)
		return t
	}
	id := func(name string) *term.Term { t, _ := term.Ident(sc, name); return t }
	bin := func(s *term.Scope, op string, a, b *term.Term) *term.Term {
		t, err := term.Binary(s, op, a, b)
		if err != nil {
			panic("HARNESS-BUG c05LargeWant: " + err.Error())
		}
		return t
	}
	var t *term.Term
	closure := func(op string, f func(s *term.Scope, p *term.Term) *term.Term) *term.Term {
		s := &term.Scope{Env: envs.EnvType}
		s.Elems = append(s.Elems, term.IntT)
		p, _ := term.Pointer(s)
		b := f(s, p)
		out, err := term.Builtin2(sc, op, id("Ints2"), b)
		if err != nil {
			panic("HARNESS-BUG c05LargeWant: " + err.Error())
		}
		return out
	}
	switch kind {
	case 0:
		t, _ = term.Cond(sc, id("P"), mk(sc), term.Int(7))
	case 1:
		t, _ = term.Cond(sc, id("P"), term.Int(7), mk(sc))
	case 2:
		t = bin(sc, "and", id("P"), bin(sc, ">", mk(sc), term.Int(0)))
	case 3:
		t = bin(sc, "or", id("P"), bin(sc, ">", mk(sc), term.Int(0)))
	case 4:
		t = closure("all", func(s *term.Scope, p *term.Term) *term.Term { return bin(s, ">=", bin(s, "+", p, mk(s)), p) })
	case 5:
		t = closure("map", func(s *term.Scope, p *term.Term) *term.Term { return bin(s, "+", p, mk(s)) })
	case 6:
		t = closure("filter", func(s *term.Scope, p *term.Term) *term.Term { return bin(s, ">", bin(s, "+", p, mk(s)), term.Int(0)) })
	case 7:
		t = closure("count", func(s *term.Scope, p *term.Term) *term.Term {
			c, _ := term.Cond(s, bin(s, ">", p, term.Int(0)), bin(s, ">", mk(s), term.Int(0)), term.Bool(false))
			return c
		})
	case 8:
		a := closure("any", func(s *term.Scope, p *term.Term) *term.Term { q, _ := term.Ident(s, "Q"); return q })
		nn := closure("none", func(s *term.Scope, p *term.Term) *term.Term { return bin(s, ">", p, mk(s)) })
		t, _ = term.Cond(sc, a, mk(sc), nn)
	case 9:
		t = closure("one", func(s *term.Scope, p *term.Term) *term.Term { return bin(s, "==", mk(s), p) })
	case 11:
		inner := func(s *term.Scope) *term.Term {
			s2 := &term.Scope{Env: envs.EnvType, Elems: []reflect.Type{term.IntT, term.IntT, term.IntT}}
			p, _ := term.Pointer(s2)
			b := bin(s2, ">=", bin(s2, "+", p, mk(s2)), term.Int(0))
			all, _ := term.Builtin2(s2, "all", id("Ints2"), b)
			anyT, _ := term.Builtin2(s2, "any", id("Ints2"), all)
			return anyT
		}
		out, _ := term.Builtin2(sc, "count", id("Ints2"), inner(sc))
		t = out
	}
	if t == nil {
		return nil, false
	}
	rr := ref.Eval(t, e, 0)
	if rr.Fail != nil || rr.Unspec != "" {
		return nil, false
	}
	return rr.Value, true
}
