package checks

import (
	"fmt"
	"reflect"
	"strings"

	"github.com/antonmedv/expr"

	"verif/internal/envs"
	"verif/internal/mon"
	"verif/internal/ref"
	"verif/internal/runner"
	"verif/internal/term"
)

// C17: operator overloading is equivalent to calling the function.
// The generator knows every operand's static type by construction, resolves the
// overload itself (first candidate whose parameter types equal the operand
// types or are interfaces the operand implements) and prints the explicit-call
// form; both forms must agree on results and call logs.

type Money struct {
	Cents int
	Cur   string
}

func (m Money) Scale(n int) Money { return Money{m.Cents * n, m.Cur} }
func (m Money) Plus(o Money) Money {
	return Money{m.Cents + o.Cents, m.Cur}
}

type Tag struct{ N string }

func (t Tag) String() string { return "#" + t.N }

// a defined slice type: operands of the unnamed type []int do not match it
type IntList []int

type OpEnv struct {
	L1, L2   IntList
	EqList   func(a, b IntList) bool
	CatList  func(a, b IntList) IntList
	M1, M2   Money
	Monies   []Money
	Arr, Brr []int
	A, B     int
	S        string
	T1, T2   Tag
	P        bool
	Dup      int

	AddMoney func(a, b Money) Money
	SubMoney func(a, b Money) Money
	MulMoney func(a Money, n int) Money
	AddCents func(a Money, n int) Money // same left type as AddMoney, another right type
	SubCents func(a Money, n int) Money
	EqMoney  func(a, b Money) bool
	LtMoney  func(a, b Money) bool
	AddInts  func(a, b []int) []int
	AddStr   func(a, b fmt.Stringer) string
	EqAny    func(a, b interface{}) string
	Pick     func(m Money) Money
	AnyPick  interface{}                      // holds a func(Money) Money: a callee known only at run time
	ShowAll  func(...interface{}) interface{} // the signature the checker marks as a fast call
	SubI     func(a, b int) int               // an overload on plain ints
	HalfF    func(x float64) float64          // a float parameter: integer literals in its argument are retyped
	MatchTag func(a, b string) bool           // candidate for the operator "matches"
	VarTwo   func(a Money, b ...Money) Money  // two parameters, but variadic: ill-shaped
	Sum      func(xs []int) int
	// ill-shaped candidates
	NotFunc  int
	OneArg   func(a Money) Money
	TwoOut   func(a, b Money) (Money, error)
	ThreeArg func(a, b, c Money) Money
	NilFn    func(a, b Money) Money
	OpEmb

	log *envs.Log
}

type OpEmb struct{ Dup int } // makes Dup... a depth-shadowed name (not ambiguous)

func (e OpEnv) MethAdd(a, b Money) Money {
	e.log.Calls = append(e.log.Calls, fmt.Sprintf("MethAdd(%v,%v)", a, b))
	return Money{a.Cents + b.Cents + 1000, a.Cur}
}

func newOpEnv(r *runner.Rng) *OpEnv {
	l := &envs.Log{}
	add := func(f string, a ...interface{}) { l.Calls = append(l.Calls, fmt.Sprintf(f, a...)) }
	e := &OpEnv{log: l}
	e.M1 = Money{r.Intn(500) - 100, "EUR"}
	e.M2 = Money{r.Intn(500) - 100, "EUR"}
	for i := r.Intn(4); i > 0; i-- {
		e.Monies = append(e.Monies, Money{r.Intn(100), "EUR"})
	}
	// empty, not nil: how a nil slice compares with an empty one is not defined
	e.Arr, e.Brr = []int{}, []int{}
	for i := r.Intn(5); i > 0; i-- {
		e.Arr = append(e.Arr, r.Intn(20)-5)
	}
	for i := r.Intn(4); i > 0; i-- {
		e.Brr = append(e.Brr, r.Intn(20)-5)
	}
	e.A, e.B = r.Intn(7)-2, r.Intn(7)-2
	e.S = []string{"", "a", "xy"}[r.Intn(3)]
	e.T1, e.T2 = Tag{"p"}, Tag{[]string{"q", "p"}[r.Intn(2)]}
	e.P = r.Bool()
	e.AddMoney = func(a, b Money) Money { add("AddMoney(%v,%v)", a, b); return Money{a.Cents + b.Cents, a.Cur} }
	e.SubMoney = func(a, b Money) Money { add("SubMoney(%v,%v)", a, b); return Money{a.Cents - b.Cents, a.Cur} }
	e.MulMoney = func(a Money, n int) Money { add("MulMoney(%v,%v)", a, n); return Money{a.Cents * n, a.Cur} }
	e.AddCents = func(a Money, n int) Money { add("AddCents(%v,%v)", a, n); return Money{a.Cents + n, a.Cur} }
	e.SubCents = func(a Money, n int) Money { add("SubCents(%v,%v)", a, n); return Money{a.Cents - n, a.Cur} }
	e.EqMoney = func(a, b Money) bool { add("EqMoney(%v,%v)", a, b); return a.Cents == b.Cents }
	e.LtMoney = func(a, b Money) bool { add("LtMoney(%v,%v)", a, b); return a.Cents < b.Cents }
	e.AddInts = func(a, b []int) []int {
		add("AddInts(%v,%v)", a, b)
		return append(append([]int{}, a...), b...)
	}
	e.L1, e.L2 = IntList{1, 2}[:r.Intn(3)], IntList{1, 2}[:r.Intn(3)]
	e.EqList = func(a, b IntList) bool { add("EqList(%v,%v)", a, b); return len(a) == len(b) }
	e.CatList = func(a, b IntList) IntList { add("CatList(%v,%v)", a, b); return append(append(IntList{}, a...), b...) }
	e.AddStr = func(a, b fmt.Stringer) string { add("AddStr(%v,%v)", a, b); return a.String() + b.String() }
	e.EqAny = func(a, b interface{}) string { add("EqAny(%v,%v)", a, b); return fmt.Sprintf("%v|%v", a, b) }
	e.Pick = func(m Money) Money { add("Pick(%v)", m); return Money{m.Cents + 1, m.Cur} }
	e.SubI = func(a, b int) int { add("SubI(%v,%v)", a, b); return a - b + 100 }
	e.HalfF = func(x float64) float64 { add("HalfF(%v)", x); return x / 2 }
	e.MatchTag = func(a, b string) bool { add("MatchTag(%q,%q)", a, b); return len(a) == len(b) }
	e.VarTwo = func(a Money, b ...Money) Money { return a }
	e.ShowAll = func(xs ...interface{}) interface{} { add("ShowAll(%v)", xs); return len(xs) }
	e.AnyPick = func(m Money) Money { add("AnyPick(%v)", m); return Money{m.Cents + 2, m.Cur} }
	e.Sum = func(xs []int) int {
		add("Sum(%v)", xs)
		s := 0
		for _, x := range xs {
			s += x
		}
		return s
	}
	e.OneArg = func(a Money) Money { return a }
	e.TwoOut = func(a, b Money) (Money, error) { return a, nil }
	e.ThreeArg = func(a, b, c Money) Money { return a }
	return e
}

var (
	moneyT  = reflect.TypeOf(Money{})
	moniesT = reflect.TypeOf([]Money{})
	tagT    = reflect.TypeOf(Tag{})
	opEnvT  = reflect.TypeOf(OpEnv{})
	listT   = reflect.TypeOf(IntList{})
)

// overload tables: operator -> candidate function names in order
type opTable map[string][]string

var c17Tables = []opTable{
	{"+": {"AddMoney", "AddInts", "AddStr"}, "-": {"SubMoney"}, "*": {"MulMoney"}, "==": {"EqMoney"}, "<": {"LtMoney"}},
	{"+": {"AddInts", "AddStr", "AddMoney"}, "==": {"EqMoney", "EqAny"}, "<": {"LtMoney"}, "-": {"SubMoney"}},
	{"+": {"MethAdd", "AddInts"}, "*": {"MulMoney"}, "==": {"EqAny"}},
	{"+": {"AddStr"}, "!=": {"EqAny"}},
	{"==": {"EqList", "EqMoney"}, "+": {"CatList", "AddMoney"}, "!=": {"EqList"}},
	// one operator, one left type, two right types
	{"+": {"AddMoney", "AddCents", "AddInts"}, "-": {"SubCents", "SubMoney"}, "*": {"MulMoney"}, "<": {"LtMoney"}},
	// a word operator with a node kind of its own
	{"matches": {"MatchTag"}, "+": {"AddMoney"}, "==": {"EqMoney"}},
	// an overload on ints, met inside arguments whose literals the checker retypes
	{"-": {"SubI", "SubMoney"}, "+": {"AddMoney"}},
}

// resolve returns the function the library must pick for op on (lt, rt), or "".
func (tb opTable) resolve(op string, lt, rt reflect.Type) (string, reflect.Type) {
	for _, fn := range tb[op] {
		var ft reflect.Type
		skip := 0
		if f, ok := opEnvT.FieldByName(fn); ok {
			ft = f.Type
		} else if m, ok := opEnvT.MethodByName(fn); ok {
			ft = m.Type
			skip = 1
		} else {
			continue
		}
		fit := func(arg, param reflect.Type) bool {
			if arg == param {
				return true
			}
			if param.Kind() == reflect.Interface {
				return arg == term.NilT || arg.Implements(param)
			}
			return false
		}
		if fit(lt, ft.In(skip)) && fit(rt, ft.In(skip+1)) {
			return fn, ft.Out(0)
		}
	}
	return "", nil
}

type c17Gen struct {
	r     *runner.Rng
	tb    opTable
	elems []reflect.Type
	// number of overloaded occurrences generated
	overloaded int
	positions  map[string]bool
}

func tt(k term.Kind, op string, t reflect.Type, sub ...*term.Term) *term.Term {
	return &term.Term{K: k, Op: op, T: t, Sub: sub}
}

// bin builds l op r with the type the overload table (or the built-in
// meaning) gives; ok=false if neither applies.
func (g *c17Gen) bin(op string, l, r *term.Term) (*term.Term, bool) {
	if fn, out := g.tb.resolve(op, l.T, r.T); fn != "" {
		t := tt(term.KBinary, op, out, l, r)
		t.Str = fn // resolved overload
		g.overloaded++
		return t, true
	}
	// built-in meaning
	switch op {
	case "+", "-", "*":
		if l.T == term.IntT && r.T == term.IntT {
			return tt(term.KBinary, op, term.IntT, l, r), true
		}
		if op == "+" && l.T == term.StrT && r.T == term.StrT {
			return tt(term.KBinary, op, term.StrT, l, r), true
		}
	case "matches":
		if l.T == term.StrT && r.T == term.StrT {
			return tt(term.KBinary, op, term.BoolT, l, r), true
		}
	case "==", "!=", "<":
		if (l.T == term.IntT && r.T == term.IntT) || (l.T == term.StrT && r.T == term.StrT) {
			return tt(term.KBinary, op, term.BoolT, l, r), true
		}
		if op != "<" && l.T == term.IntsT && r.T == term.IntsT {
			return tt(term.KBinary, op, term.BoolT, l, r), true
		}
	}
	return nil, false
}

func (g *c17Gen) id(n string) *term.Term {
	f, _ := opEnvT.FieldByName(n)
	return tt(term.KIdent, n, f.Type)
}

func (g *c17Gen) pointerOf(t reflect.Type) *term.Term {
	if n := len(g.elems); n > 0 && g.elems[n-1] == t {
		return tt(term.KPointer, "", t)
	}
	return nil
}

func (g *c17Gen) mark(pos string, t *term.Term) *term.Term {
	if t != nil {
		t.Walk(func(x *term.Term) {
			if x != nil && x.K == term.KBinary && x.Str != "" {
				g.positions[pos] = true
			}
		})
	}
	return t
}

func (g *c17Gen) money(n int) *term.Term {
	r := g.r
	if p := g.pointerOf(moneyT); p != nil && r.Bool() {
		return p
	}
	if n <= 1 {
		return g.id(r.Pick([]string{"M1", "M2"}))
	}
	for tries := 0; tries < 10; tries++ {
		switch r.Intn(9) {
		case 0, 1, 2:
			op := r.Pick([]string{"+", "-"})
			if t, ok := g.bin(op, g.money(n/2), g.money(n/2)); ok {
				return t
			}
		case 3:
			if t, ok := g.bin(r.Pick([]string{"*", "*", "+", "-"}), g.money(n-2), g.int_(n/2)); ok {
				return t
			}
		case 4:
			return tt(term.KCall, "Pick", moneyT, g.mark("argument", g.money(n-1)))
		case 5:
			return tt(term.KMethod, "Scale", moneyT, g.mark("method-receiver", g.money(n-2)), g.mark("method-argument", g.int_(n/2)))
		case 6:
			return tt(term.KMethod, "Plus", moneyT, g.money(n/2), g.mark("method-argument", g.money(n/2)))
		case 7:
			return tt(term.KCond, "", moneyT, g.mark("condition", g.bool_(n/3)), g.mark("conditional-arm", g.money(n/3)), g.mark("conditional-arm", g.money(n/3)))
		case 8:
			return tt(term.KIndex, "", moneyT, g.id("Monies"), term.Int(0))
		}
	}
	return g.id("M1")
}

func (g *c17Gen) ints(n int) *term.Term {
	r := g.r
	if n <= 1 {
		return g.id(r.Pick([]string{"Arr", "Brr"}))
	}
	switch r.Intn(4) {
	case 0, 1:
		if t, ok := g.bin("+", g.ints(n/2), g.ints(n/2)); ok {
			return t
		}
	case 2:
		var a, b *term.Term
		if r.Bool() {
			a = g.mark("slice-bound", g.int_(n/3))
		}
		if r.Bool() {
			b = g.mark("slice-bound", g.int_(n/3))
		}
		return tt(term.KSlice, "", term.IntsT, g.mark("sliced-operand", g.ints(n/2)), a, b)
	}
	return g.id(r.Pick([]string{"Arr", "Brr"}))
}

func (g *c17Gen) list(n int) *term.Term {
	if n > 1 && g.r.Bool() {
		if t, ok := g.bin("+", g.list(n/2), g.list(n/2)); ok {
			return t
		}
	}
	return g.id(g.r.Pick([]string{"L1", "L2"}))
}

func (g *c17Gen) int_(n int) *term.Term {
	r := g.r
	if n <= 1 {
		if r.Bool() {
			return term.Int(r.Intn(4))
		}
		return g.id(r.Pick([]string{"A", "B"}))
	}
	for tries := 0; tries < 10; tries++ {
		switch r.Intn(8) {
		case 0:
			if t, ok := g.bin(r.Pick([]string{"+", "-", "*"}), g.int_(n/2), g.int_(n/2)); ok {
				return t
			}
		case 1:
			return tt(term.KField, "Cents", term.IntT, g.mark("field-object", g.money(n-1)))
		case 2:
			return tt(term.KBuiltin, "len", term.IntT, g.mark("len-argument", g.ints(n-1)))
		case 3:
			return tt(term.KIndex, "", term.IntT, g.mark("indexed-operand", g.ints(n/2)), g.mark("index", g.int_(n/2)))
		case 4:
			return tt(term.KCall, "Sum", term.IntT, g.mark("argument", g.ints(n-1)))
		case 5:
			// closure: count(Monies, {# < M1}) / count(Arr, {...})
			g.elems = append(g.elems, moneyT)
			body := g.mark("predicate", g.bool_(n-2))
			g.elems = g.elems[:len(g.elems)-1]
			return tt(term.KBuiltin, "count", term.IntT, g.id("Monies"), body)
		default:
			return g.id(r.Pick([]string{"A", "B"}))
		}
	}
	return g.id("A")
}

func (g *c17Gen) str(n int) *term.Term {
	r := g.r
	if n > 1 && r.Bool() {
		if t, ok := g.bin("+", g.id(r.Pick([]string{"T1", "T2"})), g.id(r.Pick([]string{"T1", "T2"}))); ok {
			return t
		}
	}
	if n > 1 && r.Bool() {
		if t, ok := g.bin("+", g.str(n/2), g.str(n/2)); ok {
			return t
		}
	}
	return g.id("S")
}

func (g *c17Gen) bool_(n int) *term.Term {
	r := g.r
	if n <= 1 {
		return g.id("P")
	}
	for tries := 0; tries < 10; tries++ {
		switch r.Intn(8) {
		case 0, 1:
			op := r.Pick([]string{"==", "<", "!="})
			if t, ok := g.bin(op, g.money(n/2), g.money(n/2)); ok && t.T == term.BoolT {
				return t
			}
		case 2:
			if t, ok := g.bin(r.Pick([]string{"==", "<"}), g.int_(n/2), g.int_(n/2)); ok && t.T == term.BoolT {
				return t
			}
		case 3:
			return tt(term.KBinary, r.Pick([]string{"and", "or"}), term.BoolT, g.bool_(n/2), g.bool_(n/2))
		case 4:
			return tt(term.KUnary, "not", term.BoolT, g.bool_(n-1))
		case 5:
			g.elems = append(g.elems, moneyT)
			body := g.mark("predicate", g.bool_(n-2))
			g.elems = g.elems[:len(g.elems)-1]
			return tt(term.KBuiltin, r.Pick([]string{"any", "all", "none"}), term.BoolT, g.id("Monies"), body)
		case 6:
			// sequences: []int operands keep the built-in ==, IntList operands
			// take an overload declared for IntList
			switch r.Intn(4) {
			case 3:
				pat := &term.Term{K: term.KStr, Str: r.Pick([]string{"^a", "y$", "", "x."}), T: term.StrT}
				if t, ok := g.bin("matches", g.str(n/2), pat); ok && t.T == term.BoolT {
					return t
				}
			case 0:
				if t, ok := g.bin("==", g.str(n/2), g.str(n/2)); ok && t.T == term.BoolT {
					return t
				}
			case 1:
				if t, ok := g.bin(r.Pick([]string{"==", "!="}), g.ints(n/2), g.ints(n/2)); ok && t.T == term.BoolT {
					return t
				}
			default:
				if t, ok := g.bin(r.Pick([]string{"==", "!="}), g.list(n/2), g.list(n/2)); ok && t.T == term.BoolT {
					return t
				}
			}
		default:
			return g.id("P")
		}
	}
	return g.id("P")
}

func (g *c17Gen) top(n int) *term.Term {
	r := g.r
	switch r.Intn(11) {
	case 0:
		return g.money(n)
	case 1:
		return g.ints(n)
	case 2:
		return g.int_(n)
	case 3:
		return g.bool_(n)
	case 4:
		return g.str(n)
	case 5:
		return term.Array(g.mark("array-element", g.money(n/2)), g.mark("array-element", g.ints(n/2)))
	case 6:
		return term.Map([]string{"k", "j"}, []*term.Term{g.mark("map-value", g.money(n/2)), g.mark("map-value", g.int_(n/2))})
	case 7:
		g.elems = append(g.elems, moneyT)
		body := g.mark("closure-body", g.money(n-2))
		g.elems = g.elems[:len(g.elems)-1]
		return tt(term.KBuiltin, "map", term.ArrT, g.id("Monies"), body)
	case 10:
		// an int overload inside an argument whose integer literals are
		// retyped to the (float) parameter
		if inner, ok := g.bin("-", g.int_(n/2), term.Int(1+r.Intn(3))); ok {
			arg := tt(term.KBinary, "*", term.IntT, inner, term.Int(2))
			return tt(term.KCall, "HalfF", term.FloatT, g.mark("retyped-argument", arg))
		}
		return g.money(n)
	case 9:
		// argument of a callee whose type is only known at run time
		if r.Bool() {
			return tt(term.KCall, "ShowAll", term.AnyT, g.mark("argument-of-fast-call", g.money(n/2)), g.mark("argument-of-fast-call", g.ints(n/2)))
		}
		return tt(term.KCall, "AnyPick", term.AnyT, g.mark("argument-of-dynamic-callee", g.money(n-1)))
	case 8:
		// an == overloaded with interface parameters also captures nil
		if t, ok := g.bin(r.Pick([]string{"==", "!="}), g.id(r.Pick([]string{"S", "A", "M1", "T1"})), term.Nil()); ok {
			return t
		}
		if t, ok := g.bin("==", term.Nil(), g.id("S")); ok {
			return t
		}
		return g.bool_(n)
	default:
		return g.money(n)
	}
}

// explicit returns a copy of t with every resolved overload printed as a call.
func explicit(t *term.Term) *term.Term {
	if t == nil {
		return nil
	}
	cp := *t
	cp.Sub = make([]*term.Term, len(t.Sub))
	for i, s := range t.Sub {
		cp.Sub[i] = explicit(s)
	}
	if t.K == term.KBinary && t.Str != "" {
		return &term.Term{K: term.KCall, Op: t.Str, Sub: cp.Sub, T: t.T}
	}
	return &cp
}

func (tb opTable) options() []expr.Option {
	var out []expr.Option
	var ops []string
	for op := range tb {
		ops = append(ops, op)
	}
	// deterministic order of options
	for i := 0; i < len(ops); i++ {
		for j := i + 1; j < len(ops); j++ {
			if ops[j] < ops[i] {
				ops[i], ops[j] = ops[j], ops[i]
			}
		}
	}
	for _, op := range ops {
		out = append(out, expr.Operator(op, tb[op]...))
	}
	return out
}

func init() {
	runner.Register(&runner.Check{
		ID:    "C17",
		Level: "exploration",
		Rule: "case = one expression over an environment with struct, slice and interface-parameter overloads (4 overload tables with 1-3 candidates per operator), compiled in operator form and in explicit-call form (both optimizer settings) and run on 3 environment values; overloaded occurrences are placed as sliced/indexed operand, index, slice bound, argument, method receiver and argument, closure body, predicate, array element, map value, conditional arm and condition; " +
			"distinct = distinct sources containing at least one overloaded occurrence",
		Assumptions: []string{"overload functions have no side effects beyond the call log", "filter/map results are not used as overload operands (their dynamic type differs from the static one: recorded under C03)"},
		Phases: []runner.Phase{
			{Name: "bad-tables", Serial: true, N: func(string) uint64 { return 1 }, Run: c17BadTables},
			{Name: "fixed-pairs", Serial: true, N: func(string) uint64 { return 1 }, Run: c17FixedPairs},
			{Name: "equivalence", N: func(tier string) uint64 {
				if tier == "thorough" {
					return 1500000
				}
				return 40000
			}, Run: c17Case},
		},
		Post: func(a *runner.Aggregate) []string {
			var out []string
			if a.Counters["reference_agreed"] == 0 {
				out = append(out, "the reference evaluation never settled a case")
			}
			if a.Counters["forms_compared"] == 0 || a.Counters["overload_calls_logged"] == 0 {
				out = append(out, "no overloaded occurrence was compared")
			}
			if len(a.Sets["positions"]) < 12 {
				out = append(out, fmt.Sprintf("only %d placement positions were exercised", len(a.Sets["positions"])))
			}
			return out
		},
	})
}

func c17Case(c *runner.Ctx, idx uint64) {
	r := c.R
	tbi := int(idx % uint64(len(c17Tables)))
	g := &c17Gen{r: r, tb: c17Tables[tbi], positions: map[string]bool{}}
	t := g.top(4 + r.Intn(24))
	opSrc := term.Print(t, term.PrintOpts{})
	ex := explicit(t)
	exSrc := term.Print(ex, term.PrintOpts{})
	c.Begin(opSrc)
	if g.overloaded == 0 {
		c.Count("no_overloaded_occurrence", 1)
	} else {
		c.Distinct(opSrc)
	}
	for p := range g.positions {
		c.SetAdd("positions", p)
	}
	sample := newOpEnv(runner.NewRng(1))
	for _, optimize := range []bool{true, false} {
		opts := append([]expr.Option{expr.Env(*sample), expr.Optimize(optimize)}, g.tb.options()...)
		p1, co1 := SafeCompile(opSrc, opts...)
		p2, co2 := SafeCompile(exSrc, opts...)
		c.Eval(2)
		cas := map[string]interface{}{"operator_form": opSrc, "explicit_form": exSrc, "table": fmt.Sprint(map[string][]string(g.tb)), "optimize": optimize,
			"operator_compile": co1.String(), "explicit_compile": co2.String()}
		if co1.Panic != nil || co2.Panic != nil {
			c.Violate("compile-panic", fmt.Sprint(co1.Panic, co2.Panic), cas)
			return
		}
		if co2.Err != nil {
			// the explicit form is the harness's: if it does not compile the
			// case says nothing
			c.Count("explicit_form_rejected", 1)
			c.SetAdd("explicit_reject", errKeyOf(co2.Err))
			return
		}
		if co1.Err != nil {
			c.Violate("operator-form-rejected:"+errKeyOf(co1.Err), "operator form rejected although the explicit-call form compiles: "+firstLine(co1.Err.Error()), cas)
			return
		}
		for k := 0; k < 3; k++ {
			seed := r.U64()
			e1 := newOpEnv(runner.NewRng(seed))
			e2 := newOpEnv(runner.NewRng(seed))
			o1 := SafeRun(p1, *e1)
			o2 := SafeRun(p2, *e2)
			c.Eval(2)
			c.Count("forms_compared", 1)
			c.Count("overload_calls_logged", int64(len(e2.log.Calls)))
			l1, l2 := strings.Join(e1.log.Calls, ";"), strings.Join(e2.log.Calls, ";")
			same := o1.Panic == nil && o2.Panic == nil && o1.Failed() == o2.Failed() && l1 == l2
			if same && !o1.Failed() {
				same = mon.Canon(o1.Val) == mon.Canon(o2.Val)
			}
			// third oracle: the explicit-call form evaluated by the reference
			// evaluator, which applies the Go function to the operand values
			// itself (the two library forms share the call instruction)
			if same && optimize {
				e3 := newOpEnv(runner.NewRng(seed))
				rr := ref.Eval(ex, e3, 0)
				l3 := strings.Join(e3.log.Calls, ";")
				switch {
				case rr.Unspec != "" || rr.Tainted || ex.HasUnspec():
					c.Count("reference_unspecified", 1)
				case (rr.Fail != nil) != o1.Failed() || l3 != l1 || (rr.Fail == nil && mon.Canon(rr.Value) != mon.Canon(o1.Val)):
					cas["operator_result"] = o1.String()
					cas["operator_calls"] = l1
					cas["reference_result"] = refOutcome(rr)
					cas["reference_calls"] = l3
					kind := "value"
					if l3 != l1 {
						kind = "calls"
					}
					c.Violate("differs-from-function-application:"+kind, fmt.Sprintf("operator form %s [%s], the functions applied to the operand values give %s [%s]", o1, l1, refOutcome(rr), l3), cas)
					return
				default:
					c.Count("reference_agreed", 1)
				}
			}
			if !same {
				cas["operator_result"] = o1.String()
				cas["explicit_result"] = o2.String()
				cas["operator_calls"] = l1
				cas["explicit_calls"] = l2
				kind := "value"
				if l1 != l2 {
					kind = "calls"
				}
				if o1.Failed() != o2.Failed() {
					kind = "failure:" + outcomeKey(o1)
				}
				c.Violate("forms-differ:"+kind, fmt.Sprintf("operator form %s [%s], explicit form %s [%s]", o1, l1, o2, l2), cas)
				return
			}
		}
	}
	if c.WantSample() {
		c.Sample(map[string]interface{}{"operator_form": opSrc, "explicit_form": exSrc, "overloaded_occurrences": g.overloaded})
	}
}

func c17BadTables(c *runner.Ctx, idx uint64) {
	sample := newOpEnv(runner.NewRng(1))
	bad := []struct{ op, fn, why string }{
		{"+", "Missing", "missing member"}, {"+", "NotFunc", "non-function member"}, {"+", "OneArg", "one parameter"},
		{"+", "ThreeArg", "three parameters"}, {"+", "TwoOut", "two results"}, {"+", "M1", "struct member"}, {"+", "log", "unexported member"},
		{"-", "Scale", "name of a method of another type"}, {"+", "", "empty name"}, {"+", "VarTwo", "variadic function"},
	}
	for _, b := range bad {
		for _, src := range []string{"M1 + M2", "1", "A - B"} {
			c.Begin(fmt.Sprintf("bad table %s->%s on %s", b.op, b.fn, src))
			_, co := SafeCompile(src, expr.Env(*sample), expr.Operator(b.op, b.fn))
			c.Eval(1)
			c.Count("bad_tables", 1)
			c.Distinct("bad|" + b.fn + "|" + src)
			if co.Panic != nil {
				c.Violate("bad-table-panic:"+b.why, fmt.Sprintf("Compile panicked for an operator table naming a %s: %v", b.why, co.Panic), map[string]interface{}{"operator": b.op, "function": b.fn, "source": src})
			} else if co.Err == nil {
				c.Violate("bad-table-accepted:"+b.why, "Compile accepted an operator table naming a "+b.why, map[string]interface{}{"operator": b.op, "function": b.fn, "source": src})
			}
		}
	}
	// a well-shaped table among bad candidates is still rejected
	_, co := SafeCompile("M1 + M2", expr.Env(*sample), expr.Operator("+", "AddMoney", "Missing"))
	c.Eval(1)
	if co.Err == nil {
		c.Violate("bad-table-accepted:second candidate missing", "Compile accepted a table whose second candidate is missing", map[string]interface{}{"source": "M1 + M2"})
	}
}

// c17FixedPairs: operator form / explicit-call form pairs for positions the
// term generator does not build (arguments of calls that are resolved only at
// run time or not at all).
func c17FixedPairs(c *runner.Ctx, idx uint64) {
	pairs := [][2]string{
		{"Missing?.x?.test(M1 + M2)", "Missing?.x?.test(AddMoney(M1, M2))"},
		{"Missing?.test(Pick(M1 + M2), A)", "Missing?.test(Pick(AddMoney(M1, M2)), A)"},
		{"AnyPick(M1 + M2).Cents", "AnyPick(AddMoney(M1, M2)).Cents"},
		{"ShowAll(M1 + M2, M1 - M2)", "ShowAll(AddMoney(M1, M2), SubMoney(M1, M2))"},
		{"[M1 + M2][0].Cents", "[AddMoney(M1, M2)][0].Cents"},
		{"{\"k\": M1 + M2}.k.Cents", "{\"k\": AddMoney(M1, M2)}.k.Cents"},
	}
	// the element of an outer closure used after a nested builtin that ranges
	// over a collection of another element type
	for _, inner := range []string{"count([A, S], {# != nil}) == 2", "any([A, S], {# == nil}) == false", "all([A, S], {# != nil})", "none([A, S], {# == nil})",
		"one([A, S], {# == A})", "len(filter([A, S], {# != nil})) == 2", "len(map([A, S], {#})) == 2"} {
		pairs = append(pairs,
			[2]string{"count(Monies, {" + inner + " and # == M1})", "count(Monies, {" + inner + " and EqMoney(#, M1)})"},
			[2]string{"map(Monies, {" + inner + " ? (# + M2).Cents : 0})", "map(Monies, {" + inner + " ? AddMoney(#, M2).Cents : 0})"},
			[2]string{"any(Monies, {# < M2 and " + inner + " and # < M1})", "any(Monies, {LtMoney(#, M2) and " + inner + " and LtMoney(#, M1)})"})
	}
	sample := newOpEnv(runner.NewRng(1))
	tb := c17Tables[0]
	for _, pr := range pairs {
		c.Begin(pr[0])
		opts := append([]expr.Option{expr.Env(*sample)}, tb.options()...)
		p1, co1 := SafeCompile(pr[0], opts...)
		p2, co2 := SafeCompile(pr[1], opts...)
		c.Eval(2)
		cas := map[string]interface{}{"operator_form": pr[0], "explicit_form": pr[1], "operator_compile": co1.String(), "explicit_compile": co2.String()}
		if co1.Panic != nil || co2.Panic != nil {
			c.Violate("compile-panic", fmt.Sprint(co1.Panic, co2.Panic), cas)
			continue
		}
		if co2.Err != nil {
			c.Count("explicit_form_rejected", 1)
			continue
		}
		if co1.Err != nil {
			c.Violate("operator-form-rejected:"+errKeyOf(co1.Err), "operator form rejected although the explicit-call form compiles: "+firstLine(co1.Err.Error()), cas)
			continue
		}
		c.Distinct("pair|" + pr[0])
		for k := uint64(0); k < 8; k++ {
			e1, e2 := newOpEnv(runner.NewRng(c.Seed+k)), newOpEnv(runner.NewRng(c.Seed+k))
			o1, o2 := SafeRun(p1, *e1), SafeRun(p2, *e2)
			c.Eval(2)
			c.Count("forms_compared", 1)
			l1, l2 := strings.Join(e1.log.Calls, ";"), strings.Join(e2.log.Calls, ";")
			if o1.Panic != nil || o2.Panic != nil || o1.Failed() != o2.Failed() || l1 != l2 || (!o1.Failed() && mon.Canon(o1.Val) != mon.Canon(o2.Val)) {
				cas["operator_result"], cas["explicit_result"], cas["operator_calls"], cas["explicit_calls"] = o1.String(), o2.String(), l1, l2
				c.Violate("forms-differ:fixed-pair", fmt.Sprintf("operator form %s [%s], explicit form %s [%s]", o1, l1, o2, l2), cas)
				break
			}
		}
	}
}
