package checks

import (
	"fmt"

	"github.com/antonmedv/expr"

	"verif/internal/envs"
	"verif/internal/mon"
	"verif/internal/runner"
	"verif/internal/term"
)

// C15: type information only rejects; it never changes meaning.
// Differential: among the compilation modes that compile and run successfully
// on an environment value, all results must be canon-equal.

type c15Variant struct {
	name string
	out  Outcome
	ok   bool
}

func c15Case(c *runner.Ctx, src string, style int, seed uint64) {
	c.Begin(src)
	e := envs.New(&envs.Log{})
	envs.Fill(e, style, runner.NewRng(seed))
	if seed%3 == 0 {
		// values inside small literal ranges / arrays, fractional floats
		k := int(seed>>8) % 5
		e.A, e.B, e.I, e.I8, e.U8, e.I64 = k, k+1, k-1, int8(k), uint8(k), int64(k)
		e.X, e.Y, e.F64, e.F32 = float64(k)+0.5, float64(k), float64(k)+0.25, float32(k)+0.5
		e.AnyI, e.AnyF = k, float64(k)+0.5
	}
	m := envs.AsMap(e)
	sample := envs.New(&envs.Log{})
	sampleMap := envs.AsMap(sample)
	runEnvs := []struct {
		name string
		v    interface{}
	}{{"struct", *e}, {"pointer", e}, {"map", m}}

	var vs []c15Variant
	add := func(name string, o Outcome) {
		if o.Panic != nil {
			c.Violate("panic:"+name, fmt.Sprint(o.Panic), map[string]interface{}{"source": src, "variant": name})
		}
		vs = append(vs, c15Variant{name, o, !o.Failed()})
	}
	// Eval and untyped Compile on each environment representation
	for _, re := range runEnvs {
		add("Eval/"+re.name, SafeEval(src, re.v))
		c.Eval(1)
	}
	pU, coU := SafeCompile(src)
	c.Eval(1)
	if !coU.Failed() {
		for _, re := range runEnvs {
			add("Compile()/"+re.name, SafeRun(pU, re.v))
			c.Eval(1)
		}
	}
	typed := []struct {
		name string
		opt  expr.Option
		run  interface{}
	}{
		{"Env(struct)", expr.Env(*sample), *e},
		{"Env(*struct)", expr.Env(sample), e},
		{"Env(map)", expr.Env(sampleMap), m},
	}
	for _, tv := range typed {
		for _, allow := range []bool{false, true} {
			opts := []expr.Option{tv.opt}
			name := tv.name
			if allow {
				opts = append(opts, expr.AllowUndefinedVariables())
				name += "+AllowUndefinedVariables"
			}
			p, co := SafeCompile(src, opts...)
			c.Eval(1)
			if co.Panic != nil {
				c.Violate("compile-panic:"+name, fmt.Sprint(co.Panic), map[string]interface{}{"source": src, "variant": name})
				continue
			}
			if co.Err != nil {
				c.Count("variant_rejected", 1)
				continue
			}
			add(name, SafeRun(p, tv.run))
			c.Eval(1)
		}
	}
	var first *c15Variant
	nOK := 0
	for i := range vs {
		if !vs[i].ok {
			continue
		}
		nOK++
		if first == nil {
			first = &vs[i]
			continue
		}
		if mon.Canon(vs[i].out.Val) != mon.Canon(first.out.Val) {
			all := map[string]string{}
			for _, v := range vs {
				all[v.name] = v.out.String()
			}
			c.Violate("modes-disagree:"+first.name+"|"+vs[i].name, fmt.Sprintf("%s returns %s, %s returns %s", first.name, first.out, vs[i].name, vs[i].out),
				map[string]interface{}{"source": src, "variants": all, "env": envBrief(e)})
			break
		}
	}
	c.Count("variants_succeeded", int64(nOK))
	if nOK >= 2 {
		c.Count("cases_with_two_or_more_successes", 1)
		c.Distinct(fmt.Sprintf("%s|%d|%d", src, style, seed))
	}
	if c.WantSample() {
		c.Sample(map[string]interface{}{"source": src, "variants_run": len(vs), "variants_succeeded": nOK})
	}
}

func init() {
	corpus := []string{
		"A == 1", "S == \"a\"", "A == I64", "AnyI == A", "AnyI == 1", "AnyS == S", "A == AnyI", "I8 == 1", "X == 1", "1 == X",
		"FnF(X + 7 / 2)", "FnF(AnyI + 7 / 2)", "FnF(AnyF + 7 / 2)", "FnF(AnyF * 3 / 2)", "Half(AnyF - 1 / 2)", "FnAny(AnyI + 7 / 2)", "FnI(AnyI + 1)", "FnF(1)", "FnU8(255)", "Half(3)", "FnI64(7 / 2)", "Fast(1, 2.5, \"a\")",
		"Inc(A)", "Cat(S, T)", "It.Double()", "PIt.Label()", "NilIt?.Name", "It.Next?.Next?.ID", "MA[\"a\"]", "MA.a", "MI[\"zz\"]", "len(Anys)",
		"A in 1..3", "X in 1..3", "AnyI in 1..3", "A in [1, 2, 3]", "AnyI in [1, 2, 3]", "S in [\"a\", \"b\"]", "AnyS in [\"a\", \"b\"]",
		"map(Ints, {# * 2})", "filter(Items, {.ID > 0})", "count(Anys, {# == nil})", "A / 2", "AnyI / 2", "7 / 2", "-A", "A ** 2", "Ints[0:2]", "A > X ? A : X",
	}
	runner.Register(&runner.Check{
		ID:    "C15",
		Level: "exploration",
		Rule: "case = (expression, environment value) evaluated through up to 12 modes: Eval and untyped Compile on the struct, pointer and map form of the environment; Compile with Env(struct), Env(*struct), Env(map[string]interface{}), each with and without AllowUndefinedVariables; expressions: a corpus aimed at type-directed instruction choices and seeded random typed terms (half with dynamic operands); " +
			"distinct = distinct (source, environment) pairs with at least two succeeding modes",
		Assumptions: []string{"modes that fail are not compared, as the property states", "results are compared with the value canon (numeric kind included)"},
		Phases: []runner.Phase{
			{Name: "corpus", N: func(string) uint64 { return uint64(len(corpus)) }, Run: func(c *runner.Ctx, idx uint64) {
				styles, seeds := EnvStyles(c.R, 6)
				for i := range styles {
					c15Case(c, corpus[idx], styles[i], seeds[i])
				}
			}},
			{Name: "random", N: func(tier string) uint64 {
				if tier == "thorough" {
					return 700000
				}
				return 16000
			}, Run: func(c *runner.Ctx, idx uint64) {
				g := term.NewGen(c.R, idx%2 == 0)
				var t *term.Term
				func() {
					defer func() {
						if r := recover(); r != nil {
							c.Inconclusive(fmt.Sprint(r))
						}
					}()
					t = g.Top(3 + c.R.Intn(35))
				}()
				if t == nil {
					return
				}
				src := term.Print(t, term.PrintOpts{})
				styles, seeds := EnvStyles(c.R, 4)
				for i := range styles {
					c15Case(c, src, styles[i], seeds[i])
				}
			}},
		},
		Post: func(a *runner.Aggregate) []string {
			if a.Counters["cases_with_two_or_more_successes"] == 0 {
				return []string{"no case had two succeeding modes to compare"}
			}
			return nil
		},
	})
}
