package checks

import (
	"fmt"

	"github.com/antonmedv/expr"

	"verif/internal/envs"
	"verif/internal/mon"
	"verif/internal/runner"
	"verif/internal/term"
)

// C15: type information only rejects; it never changes meaning.
// Differential: among the compilation modes that compile and run successfully
// on an environment value, all results must be canon-equal.

type c15Variant struct {
	name string
	out  Outcome
	ok   bool
}

func c15Case(c *runner.Ctx, src string, style int, seed uint64) {
	c.Begin(src)
	e := envs.New(&envs.Log{})
	envs.Fill(e, style, runner.NewRng(seed))
	if seed%3 == 0 {
		// values inside small literal ranges / arrays, fractional floats
		k := int(seed>>8) % 5
		e.A, e.B, e.I, e.I8, e.U8, e.I64 = k, k+1, k-1, int8(k), uint8(k), int64(k)
		e.X, e.Y, e.F64, e.F32 = float64(k)+0.5, float64(k), float64(k)+0.25, float32(k)+0.5
		e.AnyI, e.AnyF = k, float64(k)+0.5
	}
	m := envs.AsMap(e)
	sample := envs.New(&envs.Log{})
	sampleMap := envs.AsMap(sample)
	runEnvs := []c15RunEnv{{"struct", *e}, {"pointer", e}, {"map", m}}
	typed := []c15Typed{
		{"Env(struct)", expr.Env(*sample), *e},
		{"Env(*struct)", expr.Env(sample), e},
		{"Env(map)", expr.Env(sampleMap), m},
	}
	c15Compare(c, src, runEnvs, typed, envBrief(e), fmt.Sprintf("%s|%d|%d", src, style, seed))
}

// every literal fits the parameter type, an intermediate result does not
var c15NarrowIntermediate = map[string]bool{"FnI8(I8 + 100 * 2 / 4)": true, "FnI8(I8 + 120 * 2 - 239)": true}

type c15RunEnv struct {
	name string
	v    interface{}
}

type c15Typed struct {
	name string
	opt  expr.Option
	run  interface{}
}

func c15Compare(c *runner.Ctx, src string, runEnvs []c15RunEnv, typed []c15Typed, envDesc, distinctKey string) {
	var vs []c15Variant
	add := func(name string, o Outcome) {
		if o.Panic != nil {
			c.Violate("panic:"+name, fmt.Sprint(o.Panic), map[string]interface{}{"source": src, "variant": name})
		}
		vs = append(vs, c15Variant{name, o, !o.Failed()})
	}
	// Eval and untyped Compile on each environment representation
	for _, re := range runEnvs {
		add("Eval/"+re.name, SafeEval(src, re.v))
		c.Eval(1)
	}
	pU, coU := SafeCompile(src)
	c.Eval(1)
	if !coU.Failed() {
		for _, re := range runEnvs {
			add("Compile()/"+re.name, SafeRun(pU, re.v))
			c.Eval(1)
		}
	}
	for _, tv := range typed {
		for _, allow := range []bool{false, true} {
			opts := []expr.Option{tv.opt}
			name := tv.name
			if allow {
				opts = append(opts, expr.AllowUndefinedVariables())
				name += "+AllowUndefinedVariables"
			}
			p, co := SafeCompile(src, opts...)
			c.Eval(1)
			if co.Panic != nil {
				c.Violate("compile-panic:"+name, fmt.Sprint(co.Panic), map[string]interface{}{"source": src, "variant": name})
				continue
			}
			if co.Err != nil {
				c.Count("variant_rejected", 1)
				continue
			}
			add(name, SafeRun(p, tv.run))
			c.Eval(1)
		}
	}
	var first *c15Variant
	nOK := 0
	for i := range vs {
		if !vs[i].ok {
			continue
		}
		nOK++
		if first == nil {
			first = &vs[i]
			continue
		}
		if mon.Canon(vs[i].out.Val) != mon.Canon(first.out.Val) {
			all := map[string]string{}
			for _, v := range vs {
				all[v.name] = v.out.String()
			}
			sig := "modes-disagree:" + first.name + "|" + vs[i].name
			if c15NarrowIntermediate[src] {
				// recorded finding (the inputs are fixed corpus entries)
				sig = "modes-disagree:literals-retyped-to-a-narrow-parameter-wrap-in-an-intermediate-result"
			}
			c.Violate(sig, fmt.Sprintf("%s returns %s, %s returns %s", first.name, first.out, vs[i].name, vs[i].out),
				map[string]interface{}{"source": src, "variants": all, "env": envDesc})
			break
		}
	}
	c.Count("variants_succeeded", int64(nOK))
	if nOK >= 2 {
		c.Count("cases_with_two_or_more_successes", 1)
		c.Distinct(distinctKey)
	}
	if c.WantSample() {
		c.Sample(map[string]interface{}{"source": src, "variants_run": len(vs), "variants_succeeded": nOK})
	}
}

// environment over defined (named) types: the checker knows their kinds, the
// untyped modes only see the values
type C15Str string
type C15Int int
type C15Float float64
type C15Bool bool
type C15List []int
type C15Dict map[string]int

type C15Named struct {
	Col   C15Str
	ID    C15Int
	Rt    C15Float
	Fl    C15Bool
	L     C15List
	D     C15Dict
	IDs   []C15Int
	Cols  []C15Str
	ByCol map[C15Str]int
	A     int
	S     string
	X     float64
	Ints  []int
	Strs  []string
	MI    map[string]int
	AnyC  interface{}
	AnyN  interface{}
}

func (e C15Named) asMap() map[string]interface{} {
	return map[string]interface{}{"Col": e.Col, "ID": e.ID, "Rt": e.Rt, "Fl": e.Fl, "L": e.L, "D": e.D, "IDs": e.IDs, "Cols": e.Cols, "ByCol": e.ByCol,
		"A": e.A, "S": e.S, "X": e.X, "Ints": e.Ints, "Strs": e.Strs, "MI": e.MI, "AnyC": e.AnyC, "AnyN": e.AnyN}
}

var c15NamedAtoms = map[string][]string{
	"str":  {"Col", "S", `"a"`, `"b"`, "AnyC", "Cols[0]"},
	"int":  {"ID", "A", "1", "2", "3", "AnyN", "IDs[0]", "L[0]"},
	"num":  {"ID", "A", "Rt", "X", "1", "2.5", "AnyN"},
	"strs": {`["a", "b"]`, `["b"]`, "Cols", "Strs", `["a", 1]`},
	"ints": {"[1, 2, 3]", "[2]", "1..3", "2..2", "IDs", "Ints", "L", "[1, 2.0]"},
	"maps": {"D", "MI", "ByCol", `{"a": 1}`},
}

func c15NamedSrc(r *runner.Rng) string {
	pick := func(k string) string { return r.Pick(c15NamedAtoms[k]) }
	switch r.Intn(12) {
	case 0:
		return pick("str") + " " + r.Pick([]string{"in", "not in"}) + " " + pick("strs")
	case 1:
		return pick("int") + " " + r.Pick([]string{"in", "not in"}) + " " + pick("ints")
	case 2:
		return pick("str") + " " + r.Pick([]string{"in", "not in"}) + " " + pick("maps")
	case 3:
		return pick("str") + " " + r.Pick([]string{"==", "!=", "<", "+", "contains", "startsWith", "matches"}) + " " + pick("str")
	case 4:
		return pick("num") + " " + r.Pick([]string{"==", "!=", "<", ">=", "+", "-", "*", "/", "**"}) + " " + pick("num")
	case 5:
		return pick("int") + " " + r.Pick([]string{"%", "..", "==", "/"}) + " " + pick("int")
	case 6:
		return r.Pick([]string{"Fl and true", "not Fl", "Fl or false", "Fl ? 1 : 2", "Fl == true", "!Fl", "-ID", "-Rt", "+ID"})
	case 7:
		return r.Pick([]string{"len(L)", "len(Col)", "len(D)", "L[0]", "L[1:]", "D[\"a\"]", "D.a", "ByCol[Col]", "ByCol[\"a\"]", "MI[Col]", "D[Col]", "Ints[ID]", "L[ID]", "Strs[ID]"})
	case 8:
		return r.Pick([]string{"map(L, {# + 1})", "filter(IDs, {# > 1})", "count(Cols, {# == \"a\"})", "all(IDs, {# in [1, 2, 3]})", "any(Cols, {# in [\"a\", \"b\"]})", "count(L, {# in 1..2})", "map(IDs, {# == ID})", "filter(Cols, {# == Col})"})
	case 9:
		return "(" + c15NamedSrc(r) + ") == (" + c15NamedSrc(r) + ")"
	case 10:
		return "(" + pick("int") + " in " + pick("ints") + ") ? " + pick("str") + " : " + pick("str")
	default:
		return "[" + pick("int") + ", " + pick("str") + ", " + pick("num") + "]"
	}
}

// c15RetypeSrc: a call whose argument is integer arithmetic (the checker
// retypes its literals to the parameter's kind) with dynamic operands at
// varying depth.
func c15RetypeSrc(r *runner.Rng) string {
	var tree func(d int) string
	tree = func(d int) string {
		if d <= 0 || r.Chance(1, 4) {
			return r.Pick([]string{"1", "2", "3", "7", "AnyF", "AnyI", "AnyF", "A", "I64", "7 / 2", "1 / 2", "5 % 3", "U8"})
		}
		switch r.Intn(6) {
		case 0:
			return "-" + "(" + tree(d-1) + ")"
		case 1:
			return "(" + tree(d-1) + ")"
		default:
			return "(" + tree(d-1) + ") " + r.Pick([]string{"+", "-", "*", "/"}) + " " + tree(d-1)
		}
	}
	fn := r.Pick([]string{"FnF", "Half", "FnF32", "FnAny", "FnI64", "FnU8", "FnI", "It.Plus", "Inc"})
	return fn + "(" + tree(1+r.Intn(3)) + ")"
}

func init() {
	corpus := []string{
		"[Tuple(1, 2), Tuple(3, 4)]", "Tuple(1, 2) == Tuple(3, 4)", "len(filter([1, 2, 3], {Tuple(#) == Tuple(1)}))", "map(1..3, {Tuple(#, A)})", "Tuple(Tuple(A), Tuple(B))", "[Fast(1), Fast(1, 2)]",
		"FnI8(I8 + 200 / 2)", "FnI8(I8 + 100)", "FnI8(-128)", "FnI8(I8 * 300 / 3)", "FnI8(127)", "FnI8(128 - 1)", "FnU8(255)", "FnU8(300 - 100)", "FnI8((AnyI % 5) + 200 / 2)",
		"FnI8(I8 + 100 * 2 / 4)", "FnI8(I8 + 120 * 2 - 239)",
		"FnF((P ? AnyF + 1 : 2) + 7 / 2)", "FnF((Q ? 2 : AnyF * 1) + 7 / 2)", "FnF([AnyF + 1][0] + 7 / 2)",
		"Half((AnyF + 1) * (7 / 2))", "FnF(-(AnyF + 1) + 7 / 2)", "FnF((AnyI + 1) * 7 / 2)", "FnF32((AnyF - 1) / (1 / 2 + 1))",
		"A == 1", "S == \"a\"", "A == I64", "AnyI == A", "AnyI == 1", "AnyS == S", "A == AnyI", "I8 == 1", "X == 1", "1 == X",
		"FnF(X + 7 / 2)", "FnF(AnyI + 7 / 2)", "FnF(AnyF + 7 / 2)", "FnF(AnyF * 3 / 2)", "Half(AnyF - 1 / 2)", "FnAny(AnyI + 7 / 2)", "FnI(AnyI + 1)", "FnF(1)", "FnU8(255)", "Half(3)", "FnI64(7 / 2)", "Fast(1, 2.5, \"a\")",
		"Inc(A)", "Cat(S, T)", "It.Double()", "PIt.Label()", "NilIt?.Name", "It.Next?.Next?.ID", "MA[\"a\"]", "MA.a", "MI[\"zz\"]", "len(Anys)",
		"A in 1..3", "X in 1..3", "AnyI in 1..3", "A in [1, 2, 3]", "AnyI in [1, 2, 3]", "S in [\"a\", \"b\"]", "AnyS in [\"a\", \"b\"]",
		"map(Ints, {# * 2})", "filter(Items, {.ID > 0})", "count(Anys, {# == nil})", "A / 2", "AnyI / 2", "7 / 2", "-A", "A ** 2", "Ints[0:2]", "A > X ? A : X",
	}
	runner.Register(&runner.Check{
		ID:    "C15",
		Level: "exploration",
		Rule: "case = (expression, environment value) evaluated through up to 12 modes: Eval and untyped Compile on the struct, pointer and map form of the environment; Compile with Env(struct), Env(*struct), Env(map[string]interface{}), each with and without AllowUndefinedVariables; expressions: a corpus aimed at type-directed instruction choices and seeded random typed terms (half with dynamic operands); " +
			"distinct = distinct (source, environment) pairs with at least two succeeding modes",
		Assumptions: []string{"modes that fail are not compared, as the property states", "results are compared with the value canon (numeric kind included)"},
		Phases: []runner.Phase{
			{Name: "corpus", N: func(string) uint64 { return uint64(len(corpus)) }, Run: func(c *runner.Ctx, idx uint64) {
				styles, seeds := EnvStyles(c.R, 4)
				for i := range styles {
					c15Case(c, corpus[idx], styles[i], seeds[i])
				}
				// every targeted value set (k = 0..4: small ints, fractional
				// floats inside the literal ranges and arrays of the corpus)
				for k := uint64(0); k < 5; k++ {
					seed := k << 8
					for seed%3 != 0 {
						seed++
					}
					c15Case(c, corpus[idx], 3, seed)
				}
			}},
			{Name: "random", N: func(tier string) uint64 {
				if tier == "thorough" {
					return 700000
				}
				return 16000
			}, Run: func(c *runner.Ctx, idx uint64) {
				g := term.NewGen(c.R, idx%2 == 0)
				var t *term.Term
				func() {
					defer func() {
						if r := recover(); r != nil {
							c.Inconclusive(fmt.Sprint(r))
						}
					}()
					t = g.Top(3 + c.R.Intn(35))
				}()
				if t == nil {
					return
				}
				src := term.Print(t, term.PrintOpts{})
				styles, seeds := EnvStyles(c.R, 4)
				for i := range styles {
					c15Case(c, src, styles[i], seeds[i])
				}
			}},
			{Name: "named-types", N: func(tier string) uint64 {
				if tier == "thorough" {
					return 200000
				}
				return 6000
			}, Run: func(c *runner.Ctx, idx uint64) {
				r := c.R
				src := c15NamedSrc(r)
				c.Begin(src)
				k := r.Intn(4)
				e := C15Named{Col: C15Str(r.Pick([]string{"a", "b", "c", ""})), ID: C15Int(k), Rt: C15Float(float64(k) + []float64{0, 0.5}[r.Intn(2)]), Fl: C15Bool(r.Bool()),
					L: C15List{1, 2, 3}[:1+r.Intn(3)], D: C15Dict{"a": 1, "b": 2}, IDs: []C15Int{1, 2, 3}[:1+r.Intn(3)], Cols: []C15Str{"a", "b"}[:1+r.Intn(2)],
					ByCol: map[C15Str]int{"a": 1, "c": 3}, A: r.Intn(4), S: r.Pick([]string{"a", "b", "c"}), X: float64(r.Intn(4)) + []float64{0, 0.5}[r.Intn(2)],
					Ints: []int{1, 2, 3}, Strs: []string{"a", "b"}, MI: map[string]int{"a": 1}}
				e.AnyC = []interface{}{C15Str("a"), "a", C15Str("z"), 1}[r.Intn(4)]
				e.AnyN = []interface{}{C15Int(2), 2, 2.0, C15Float(2), "a"}[r.Intn(5)]
				m := e.asMap()
				sample := C15Named{}
				runEnvs := []c15RunEnv{{"struct", e}, {"pointer", &e}, {"map", m}}
				typed := []c15Typed{{"Env(struct)", expr.Env(sample), e}, {"Env(*struct)", expr.Env(&sample), &e}, {"Env(map)", expr.Env(sample.asMap()), m}}
				c.Count("named_cases", 1)
				c15Compare(c, src, runEnvs, typed, fmt.Sprintf("%+v", e), fmt.Sprintf("named|%s|%+v", src, e))
			}},
			{Name: "same-name-types", N: func(string) uint64 { return 48 }, Run: func(c *runner.Ctx, idx uint64) {
				// two distinct struct types that print identically (function-local
				// types of one name) with another field order, both used as the
				// environment in the same worker process, in both orders
				srcs := []string{"Name + \"/\" + Title", "N - M", "Name", "Title", "[N, M]", "N > M ? Name : Title", "In.N - In.M", "In.Name + Title"}
				src := srcs[idx%uint64(len(srcs))]
				k := int(idx/uint64(len(srcs))) + 1
				order := []int{0, 1}
				if idx%2 == 1 {
					order = []int{1, 0}
				}
				for _, which := range order {
					c.Begin(src)
					var v, pv, sv, spv interface{}
					if which == 0 {
						v, pv, sv, spv = c15RecA(k)
					} else {
						v, pv, sv, spv = c15RecB(k)
					}
					in := map[string]interface{}{"Name": fmt.Sprintf("in%d", k), "Title": fmt.Sprintf("it%d", k), "N": 100 * k, "M": 7 * k}
					m := map[string]interface{}{"Name": fmt.Sprintf("n%d", k), "Title": fmt.Sprintf("t%d", k), "N": 10 * k, "M": k, "In": in}
					sm := map[string]interface{}{"Name": "", "Title": "", "N": 0, "M": 0, "In": map[string]interface{}{"Name": "", "Title": "", "N": 0, "M": 0}}
					runEnvs := []c15RunEnv{{"struct", v}, {"pointer", pv}, {"map", m}}
					typed := []c15Typed{{"Env(struct)", expr.Env(sv), v}, {"Env(*struct)", expr.Env(spv), pv}, {"Env(map)", expr.Env(sm), m}}
					c.Count("same_name_cases", 1)
					c15Compare(c, src, runEnvs, typed, fmt.Sprintf("%T#%d %+v", v, which, v), fmt.Sprintf("samename|%s|%d|%d", src, which, k))
				}
			}},
			{Name: "retyped-arguments", N: func(tier string) uint64 {
				if tier == "thorough" {
					return 120000
				}
				return 4000
			}, Run: func(c *runner.Ctx, idx uint64) {
				src := c15RetypeSrc(c.R)
				c.Count("retype_cases", 1)
				styles, seeds := EnvStyles(c.R, 3)
				for i := range styles {
					c15Case(c, src, styles[i], seeds[i]/3*3) // fractional AnyF, small AnyI
				}
			}},
		},
		Post: func(a *runner.Aggregate) []string {
			if a.Counters["same_name_cases"] == 0 {
				return []string{"same-name struct type cases did not run"}
			}
			if a.Counters["named_cases"] == 0 || a.Counters["retype_cases"] == 0 {
				return []string{"named-type or retyped-argument cases did not run"}
			}
			if a.Counters["cases_with_two_or_more_successes"] == 0 {
				return []string{"no case had two succeeding modes to compare"}
			}
			return nil
		},
	})
}

// c15RecA and c15RecB declare two different types that both print as
// "checks.Rec": same member names, another field order (and another order in
// the nested struct). Returned: value, pointer, zero sample, pointer sample.
func c15RecA(k int) (interface{}, interface{}, interface{}, interface{}) {
	type In struct {
		Name, Title string
		N, M        int
	}
	type Rec struct {
		Name, Title string
		N, M        int
		In          In
	}
	v := Rec{Name: fmt.Sprintf("n%d", k), Title: fmt.Sprintf("t%d", k), N: 10 * k, M: k, In: In{Name: fmt.Sprintf("in%d", k), Title: fmt.Sprintf("it%d", k), N: 100 * k, M: 7 * k}}
	w := v
	return v, &w, Rec{}, &Rec{}
}

func c15RecB(k int) (interface{}, interface{}, interface{}, interface{}) {
	type In struct {
		M     int
		Title string
		N     int
		Name  string
	}
	type Rec struct {
		In    In
		Title string
		M     int
		Name  string
		N     int
	}
	v := Rec{Name: fmt.Sprintf("n%d", k), Title: fmt.Sprintf("t%d", k), N: 10 * k, M: k, In: In{Name: fmt.Sprintf("in%d", k), Title: fmt.Sprintf("it%d", k), N: 100 * k, M: 7 * k}}
	w := v
	return v, &w, Rec{}, &Rec{}
}
