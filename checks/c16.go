package checks

import (
	"fmt"
	"reflect"
	"sort"
	"strings"

	"github.com/antonmedv/expr"
	"github.com/antonmedv/expr/checker"
	"github.com/antonmedv/expr/conf"
	"github.com/antonmedv/expr/docgen"
	"github.com/antonmedv/expr/parser"

	"verif/internal/runner"
)

// C16: names the checker accepts are exactly those the VM resolves.
// Model = Go's own resolution as implemented by reflect (FieldByName,
// MethodByName, export rules).

type L3 struct {
	X   int
	N3  string
	Dup float64
}
type L2a struct {
	L3
	Y   int
	Dup string
}
type L2b struct {
	*L3
	Z bool
	Y float64
}
type L1 struct {
	L2a
	Own int
}
type M1 struct {
	Dup int
	Q   string
}
type M2 struct {
	Dup bool
	R   int
}
type Amb struct { // Dup is ambiguous inside Amb (two embedded structs at the same depth)
	M1
	M2
	Sole int
}
type hidden struct {
	H   int
	Dup int
}
type WithHidden struct {
	hidden
	V int
}

const c16Pkg = "verif/checks"

type c16Field struct {
	name     string
	typ      reflect.Type
	embedded bool
	unexp    bool
}

var c16Own = []c16Field{
	{name: "A", typ: reflect.TypeOf(0)}, {name: "B", typ: reflect.TypeOf("")}, {name: "X", typ: reflect.TypeOf("")}, {name: "Y", typ: reflect.TypeOf(true)},
	{name: "Dup", typ: reflect.TypeOf([]int{})}, {name: "Q", typ: reflect.TypeOf(1.5)}, {name: "Own", typ: reflect.TypeOf(uint8(0))},
	{name: "priv", typ: reflect.TypeOf(0), unexp: true}, {name: "x", typ: reflect.TypeOf(0), unexp: true}, {name: "dup", typ: reflect.TypeOf(""), unexp: true},
	{name: "Obj", typ: reflect.TypeOf(Amb{})}, {name: "PObj", typ: reflect.TypeOf(&L1{})}, {name: "Hid", typ: reflect.TypeOf(WithHidden{})}, {name: "Nest", typ: reflect.TypeOf(L1{})},
	{name: "Fn", typ: reflect.TypeOf(func(int) int { return 0 })}, {name: "Any", typ: reflect.TypeOf((*interface{})(nil)).Elem()}, {name: "Mp", typ: reflect.TypeOf(map[string]int{})},
}

var c16Embed = []c16Field{
	{name: "L1", typ: reflect.TypeOf(L1{}), embedded: true}, {name: "L2a", typ: reflect.TypeOf(L2a{}), embedded: true}, {name: "L2b", typ: reflect.TypeOf(L2b{}), embedded: true},
	{name: "L2b", typ: reflect.TypeOf(&L2b{}), embedded: true}, {name: "L3", typ: reflect.TypeOf(L3{}), embedded: true}, {name: "L3", typ: reflect.TypeOf(&L3{}), embedded: true},
	{name: "M1", typ: reflect.TypeOf(M1{}), embedded: true}, {name: "M1", typ: reflect.TypeOf(&M1{}), embedded: true}, {name: "M2", typ: reflect.TypeOf(M2{}), embedded: true},
	{name: "Amb", typ: reflect.TypeOf(Amb{}), embedded: true}, {name: "hidden", typ: reflect.TypeOf(hidden{}), embedded: true, unexp: true},
	{name: "WithHidden", typ: reflect.TypeOf(WithHidden{}), embedded: true},
}

// buildEnvType assembles a struct type; ok=false if reflect.StructOf refuses it.
func buildEnvType(r *runner.Rng) (t reflect.Type, desc string, ok bool) {
	var fields []c16Field
	used := map[string]bool{}
	n := 1 + r.Intn(7)
	for i := 0; i < n; i++ {
		var f c16Field
		if r.Bool() {
			f = c16Own[r.Intn(len(c16Own))]
		} else {
			f = c16Embed[r.Intn(len(c16Embed))]
		}
		if used[f.name] {
			continue
		}
		used[f.name] = true
		fields = append(fields, f)
	}
	var sf []reflect.StructField
	var parts []string
	for _, f := range fields {
		s := reflect.StructField{Name: f.name, Type: f.typ, Anonymous: f.embedded}
		if f.unexp {
			s.PkgPath = c16Pkg
		}
		sf = append(sf, s)
		if f.embedded {
			parts = append(parts, f.typ.String())
		} else {
			parts = append(parts, f.name+" "+f.typ.String())
		}
	}
	desc = "struct{" + strings.Join(parts, "; ") + "}"
	defer func() {
		if rec := recover(); rec != nil {
			ok = false
		}
	}()
	return reflect.StructOf(sf), desc, true
}

// populate sets every reachable exported nil pointer to a fresh value.
func populate(v reflect.Value, depth int) {
	if depth > 6 {
		return
	}
	switch v.Kind() {
	case reflect.Ptr:
		if v.IsNil() && v.CanSet() && v.Type().Elem().Kind() == reflect.Struct {
			v.Set(reflect.New(v.Type().Elem()))
		}
		if !v.IsNil() {
			populate(v.Elem(), depth+1)
		}
	case reflect.Struct:
		for i := 0; i < v.NumField(); i++ {
			populate(v.Field(i), depth+1)
		}
	case reflect.Map:
		if v.IsNil() && v.CanSet() {
			v.Set(reflect.MakeMap(v.Type()))
		}
	case reflect.Func:
		if v.IsNil() && v.CanSet() && v.Type() == reflect.TypeOf(func(int) int { return 0 }) {
			v.Set(reflect.ValueOf(func(i int) int { return i + 1 }))
		}
	}
}

// goResolves applies Go's rules: found, unambiguous, exported, and reached
// only through exported embedded fields.
func goResolves(t reflect.Type, name string) (reflect.StructField, bool, bool) {
	if t.Kind() == reflect.Ptr {
		t = t.Elem()
	}
	f, ok := t.FieldByName(name)
	if !ok || f.PkgPath != "" {
		return f, false, false
	}
	viaExported := true
	cur := t
	for i, ix := range f.Index {
		if cur.Kind() == reflect.Ptr {
			cur = cur.Elem()
		}
		sf := cur.Field(ix)
		if i < len(f.Index)-1 && sf.PkgPath != "" {
			viaExported = false
		}
		cur = sf.Type
	}
	return f, true, viaExported
}

func checkerType(src string, env interface{}) (t reflect.Type, err error, pan interface{}) {
	defer func() {
		if r := recover(); r != nil {
			pan = r
		}
	}()
	tree, perr := parser.Parse(src)
	if perr != nil {
		return nil, perr, nil
	}
	t, err = checker.Check(tree, conf.New(env))
	return
}

func safeDoc(env interface{}) (d *docgen.Context, pan interface{}) {
	defer func() {
		if r := recover(); r != nil {
			pan = r
		}
	}()
	runner.LibEnter()
	defer runner.LibLeave()
	return docgen.CreateDoc(env), nil
}

var c16BuiltinDoc = map[string]bool{"true": true, "false": true, "len": true, "all": true, "none": true, "any": true, "one": true, "filter": true, "map": true, "count": true,
	"matches": true, "contains": true, "startsWith": true, "endsWith": true}

// c16Judge checks one access expression against the model.
// goOK: -1 unknown (do not judge the converse), 0 Go does not resolve, 1 resolves.
func c16Judge(c *runner.Ctx, envDesc string, env interface{}, src string, goOK int, wantType reflect.Type) (accepted bool) {
	c.Begin(envDesc + " :: " + src)
	p, co := SafeCompile(src, expr.Env(env))
	c.Eval(1)
	cas := map[string]interface{}{"environment_type": envDesc, "expression": src, "compile": co.String()}
	if co.Panic != nil {
		c.Violate("compile-panic", fmt.Sprint(co.Panic), cas)
		return false
	}
	accepted = co.Err == nil
	c.Count("names_probed", 1)
	if !accepted {
		if goOK == 1 {
			c.Violate("go-resolvable-rejected:"+errKeyOf(co.Err), "an exported member that Go resolves unambiguously is rejected: "+firstLine(co.Err.Error()), cas)
		} else {
			c.Count("rejected", 1)
		}
		return false
	}
	c.Count("accepted", 1)
	o := SafeRun(p, env)
	c.Eval(1)
	cas["run"] = o.String()
	if o.Panic != nil {
		c.Violate("run-panic", fmt.Sprint(o.Panic), cas)
		return true
	}
	if o.Err != nil {
		c.Violate("accepted-but-unresolvable:"+errKeyOf(o.Err), "a name the checker accepts cannot be resolved on a fully populated value: "+firstLine(o.Err.Error()), cas)
		return true
	}
	ct, cerr, cpan := checkerType(src, env)
	if cpan != nil || cerr != nil {
		return true
	}
	if ct != nil && ct.Kind() != reflect.Interface && o.Val != nil {
		if dt := reflect.TypeOf(o.Val); dt != ct {
			cas["checker_type"] = ct.String()
			cas["dynamic_type"] = dt.String()
			c.Violate("type-differs", fmt.Sprintf("checker assumed %v, the run yields %v", ct, dt), cas)
		}
	}
	if wantType != nil && ct != nil && ct != wantType {
		cas["checker_type"] = ct.String()
		cas["go_type"] = wantType.String()
		c.Violate("checker-type-differs-from-go", fmt.Sprintf("checker assumed %v, Go resolves the member to %v", ct, wantType), cas)
	}
	return true
}

func c16Doc(c *runner.Ctx, envDesc string, env interface{}, accepted map[string]bool) {
	d, pan := safeDoc(env)
	c.Eval(1)
	if pan != nil {
		c.Violate("docgen-panic", fmt.Sprint(pan), map[string]interface{}{"environment_type": envDesc})
		return
	}
	listed := map[string]bool{}
	for k := range d.Variables {
		if !c16BuiltinDoc[string(k)] {
			listed[string(k)] = true
		}
	}
	// every listed name must be accepted (as identifier or call), and every
	// accepted probed name must be listed
	var extra, missing []string
	for k := range listed {
		if accepted[k] {
			continue
		}
		// not among the probed names: probe it now as identifier
		_, co := SafeCompile(k, expr.Env(env))
		c.Eval(1)
		if co.Failed() {
			extra = append(extra, k)
		}
	}
	for k, ok := range accepted {
		if ok && !listed[k] {
			missing = append(missing, k)
		}
	}
	sort.Strings(extra)
	sort.Strings(missing)
	c.Count("doc_tables_compared", 1)
	if len(extra) > 0 || len(missing) > 0 {
		c.Violate("doc-differs", fmt.Sprintf("documentation lists names Compile rejects %v / omits names Compile accepts %v", extra, missing),
			map[string]interface{}{"environment_type": envDesc, "listed_but_rejected": extra, "accepted_but_not_listed": missing})
	}
}

var c16Names = []string{"A", "B", "X", "Y", "Z", "Dup", "Q", "R", "Own", "N3", "H", "V", "Sole", "priv", "x", "dup", "hidden", "Obj", "PObj", "Hid", "Nest", "Fn", "Any", "Mp",
	"L1", "L2a", "L2b", "L3", "M1", "M2", "Amb", "WithHidden", "a", "DUP", "Du", "Dupp", "Missing", "l3", "Xx"}

var c16Nested = []string{"Obj.Dup", "Obj.Sole", "Obj.Q", "Obj.R", "Obj.M1.Dup", "PObj.Own", "PObj.X", "PObj.Dup", "PObj.L2a.L3.Dup", "PObj.Y", "Nest.N3", "Nest.L2a.Y", "Nest.Dup", "Nest.L3.Dup",
	"Hid.V", "Hid.H", "Hid.Dup", "Hid.hidden", "Obj.missing", "Nest.x", "L1.Own", "L2a.Dup", "L2b.X", "L2b.L3.N3", "L3.Dup", "M1.Q", "Amb.Dup", "Amb.M2.Dup", "WithHidden.H", "Mp.k", "Fn(1)"}

// handwritten types for what StructOf cannot build
type HInner struct{ IV int }

func (HInner) InnerM() int        { return 7 }
func (h *HInner) InnerPM() string { return "p" }

type HEnv struct {
	A int
	HInner
	Fn       func(int) int
	Obj      *HEnvObj
	Val      HValOuter  // a struct-valued member embedding HInner by value
	PVal     *HValOuter // the same behind a pointer
	XXX_Size int        // protobuf-style name: an ordinary exported member at the top level
	FnObj    HFnObj
	IntKeys  map[int]string
	NamedKey map[HKey]int
	NamedVar HVarFn                            // a defined type over the fast-call signature
	RetErr   func(...interface{}) error        // variadic, but not returning interface{}
	Strs     func(...fmt.Stringer) interface{} // variadic over another interface type
	FnMap    map[string]func() int             // functions held by a typed map
	AnyFn    interface{}                       // a function held by a dynamic member
}

// function-valued fields: unexported ones are not members; among promoted ones
// the shallowest wins, as for any other field
type HFnDeep struct{ F func() int }
type HFnA struct{ HFnDeep }
type HFnB struct{ F func() string }
type HFnObj struct {
	HFnA // F at depth 2
	HFnB // F at depth 1: this one is Obj.F
	G    func() int
	g    func() int
}
type HKey string
type HVarFn func(...interface{}) interface{}

// embeds a pointer to its own type: Go resolves X at depth 0
type HSelf struct {
	*HSelf
	X int
}

type HValOuter struct {
	HInner
	K int
}
type HEnvObj struct{ N int }

func (o HEnvObj) Get() int        { return o.N }
func (o *HEnvObj) Set(n int) bool { o.N = n; return true }
func (HEnv) ValM(x int) int       { return x + 1 }
func (*HEnv) PtrM() string        { return "ptr" }
func (HEnv) unexpM() int          { return 0 }

// a method at depth 0 shadows a function-valued field of the same name that
// an embedded struct promotes from depth 1 (and the other way round for Tag)
type HFuncs struct {
	Label func() int
	Cnt   int
}
type HTagged struct{ HFuncs }

func (HTagged) Tag() string { return "t" }

type HShadow struct {
	HFuncs
	HTagged2
	Tag   func() int // field at depth 0 shadows the promoted method Tag
	Inner HShadowInner
}
type HTagged2 struct{ K int }

func (HTagged2) Tag() string  { return "deep" }
func (HShadow) Label() string { return "method" }
func (HShadow) Other() string { return "o" }

type HShadowInner struct{ HFuncs }

func (HShadowInner) Label() string { return "inner-method" }

type Vars map[string]interface{}
type VarsM map[string]interface{}

func (VarsM) Size() int { return 42 }

type TypedM map[string]int

func (TypedM) Total() int { return 3 }

func init() {
	runner.Register(&runner.Check{
		ID:    "C16",
		Level: "exploration",
		Rule: "case = (environment type, member name or nested access); types are assembled at run time with reflect.StructOf from own fields (exported, unexported) and embedded structs (by value and pointer, with depth shadowing and genuine ambiguity at depths 0-3, an unexported embedded struct), every member name at every depth and near-miss names are probed bare, nested two levels down and as calls; handwritten types cover methods on value and pointer receivers, promoted methods, function-valued fields, untyped, named and typed maps with and without methods; each judged against reflect's FieldByName/MethodByName, the run on a fully populated value, and docgen.CreateDoc; " +
			"distinct = distinct (environment type, expression) pairs",
		Assumptions: []string{"members reached through an unexported embedded struct are judged in the accept->run direction only", "methods are probed as calls"},
		Phases: []runner.Phase{
			{Name: "handwritten", Serial: true, N: func(string) uint64 { return 1 }, Run: c16Handwritten},
			{Name: "structof", N: func(tier string) uint64 {
				if tier == "thorough" {
					return 200000
				}
				return 4000
			}, Run: c16StructOf},
		},
		Post: func(a *runner.Aggregate) []string {
			if a.Counters["accepted"] == 0 || a.Counters["rejected"] == 0 || a.Counters["doc_tables_compared"] == 0 {
				return []string{"no accepted name, no rejected name or no documentation table observed"}
			}
			return nil
		},
	})
}

func c16StructOf(c *runner.Ctx, idx uint64) {
	t, desc, ok := buildEnvType(c.R)
	if !ok {
		c.Count("structof_refused", 1)
		return
	}
	for _, form := range []string{"value", "pointer"} {
		pv := reflect.New(t)
		populate(pv, 0)
		var env interface{} = pv.Elem().Interface()
		d := desc
		if form == "pointer" {
			env = pv.Interface()
			d = "*" + desc
		}
		accepted := map[string]bool{}
		for _, name := range c16Names {
			f, resolves, viaExported := goResolves(t, name)
			goOK := 0
			var want reflect.Type
			if resolves {
				goOK = 1
				want = f.Type
				if !viaExported {
					goOK = -1
					want = nil
				}
			}
			c.Distinct(d + "|" + name)
			accepted[name] = c16Judge(c, d, env, name, goOK, want)
		}
		for _, src := range c16Nested {
			// only the accept->run direction for nested accesses whose first
			// segment exists
			first := strings.SplitN(strings.SplitN(src, ".", 2)[0], "(", 2)[0]
			if _, resolves, _ := goResolves(t, first); !resolves {
				continue
			}
			goOK := c16NestedGo(t, src)
			c.Distinct(d + "|" + src)
			c16Judge(c, d, env, src, goOK, nil)
		}
		c16Doc(c, d, env, accepted)
	}
	if c.WantSample() {
		c.Sample(map[string]interface{}{"environment_type": desc, "names_probed": len(c16Names), "nested_accesses": len(c16Nested)})
	}
}

// c16NestedGo resolves a dotted path with Go's rules: 1 resolves through
// exported members only, 0 does not resolve, -1 not judged.
func c16NestedGo(t reflect.Type, src string) int {
	if strings.Contains(src, "(") {
		return -1
	}
	cur := t
	for _, seg := range strings.Split(src, ".") {
		if cur.Kind() == reflect.Ptr {
			cur = cur.Elem()
		}
		switch cur.Kind() {
		case reflect.Struct:
			f, resolves, viaExported := goResolves(cur, seg)
			if !resolves {
				return 0
			}
			if !viaExported {
				return -1
			}
			cur = f.Type
		case reflect.Map, reflect.Interface:
			return -1
		default:
			return 0
		}
	}
	return 1
}

func c16Handwritten(c *runner.Ctx, idx uint64) {
	type probe struct {
		src  string
		goOK int
	}
	he := HEnv{A: 1, Fn: func(i int) int { return i * 2 }, Obj: &HEnvObj{N: 5}, Val: HValOuter{K: 2}, PVal: &HValOuter{K: 3}, XXX_Size: 4,
		FnObj:   HFnObj{HFnA: HFnA{HFnDeep{F: func() int { return 1 }}}, HFnB: HFnB{F: func() string { return "s" }}, G: func() int { return 2 }, g: func() int { return 3 }},
		IntKeys: map[int]string{1: "a"}, NamedKey: map[HKey]int{"a": 1},
		FnMap: map[string]func() int{"f": func() int { return 5 }}, AnyFn: func() int { return 6 },
		NamedVar: func(xs ...interface{}) interface{} { return len(xs) }, RetErr: func(...interface{}) error { return nil }, Strs: func(xs ...fmt.Stringer) interface{} { return len(xs) }}
	fnI := func() int { return 3 }
	hs := HShadow{HFuncs: HFuncs{Label: fnI, Cnt: 1}, Tag: func() int { return 9 }, Inner: HShadowInner{HFuncs{Label: fnI, Cnt: 2}}}
	cases := []struct {
		desc   string
		env    interface{}
		probes []probe
		names  []string
	}{
		{"HEnv (value)", he, []probe{{"A", 1}, {"IV", 1}, {"HInner", 1}, {"HInner.IV", 1}, {"Fn(2)", 1}, {"ValM(1)", 1}, {"InnerM()", 1}, {"PtrM()", -1}, {"InnerPM()", -1}, {"unexpM()", 0},
			{"ValM", -1}, {"[InnerM]", -1}, {"PtrM == nil", -1}, {"Obj.N", 1}, {"Obj.Get()", 1}, {"Obj.Set(3)", 1}, {"Obj.Missing()", 0}, {"HInner.InnerM()", 1}, {"valM(1)", 0}, {"Missing()", 0}, {"A()", 0}, {"Obj.n", 0},
			{"Val.K", 1}, {"Val.IV", 1}, {"Val.InnerM()", 1}, {"Val.InnerPM()", -1}, {"Val.HInner.InnerPM()", -1}, {"PVal.K", 1}, {"PVal.InnerM()", 1}, {"PVal.InnerPM()", -1}, {"XXX_Size", 1}, {"XXX_Size + 1", 1},
			{"FnObj.G()", 1}, {"FnObj.G() + 1", 1}, {"FnObj.g()", 0}, {"FnObj.F()", 1}, {"FnObj.F() + \"!\"", 1}, {"FnObj.HFnA.F() + 1", 1}, {"IntKeys[1]", 1}, {"IntKeys.a", -1}, {"NamedKey.a", -1}, {"NamedKey[\"a\"]", -1}, {"len(IntKeys)", 1},
			{"FnMap.f()", 1}, {"FnMap.f() + 1", 1}, {"AnyFn()", -1}, {"AnyFn() + 1", -1},
			{"NamedVar(1, 2)", 1}, {"NamedVar()", 1}, {"RetErr(1)", 1}, {"Strs()", 1}, {"Fn(1) + NamedVar(3)", 1}},
			[]string{"A", "IV", "HInner", "Fn", "Obj", "ValM", "InnerM", "PtrM", "InnerPM", "unexpM", "Val", "PVal", "XXX_Size", "FnObj", "IntKeys", "NamedKey", "FnMap", "AnyFn", "NamedVar", "RetErr", "Strs"}},
		{"*HEnv (pointer)", &he, []probe{{"PtrM", -1}, {"ValM", -1}, {"A", 1}, {"IV", 1}, {"Fn(2)", 1}, {"ValM(1)", 1}, {"InnerM()", 1}, {"PtrM()", 1}, {"InnerPM()", 1}, {"unexpM()", 0}, {"Obj.Set(3)", 1}, {"Obj.Get()", 1},
			{"Val.InnerM()", 1}, {"Val.InnerPM()", -1}, {"PVal.InnerPM()", -1}, {"PVal.IV", 1}, {"XXX_Size", 1}, {"FnObj.F() + \"!\"", 1}, {"FnObj.g()", 0}, {"FnMap.f() + 1", 1}, {"AnyFn() + 1", -1}, {"NamedVar(1)", 1}},
			[]string{"A", "IV", "HInner", "Fn", "Obj", "ValM", "InnerM", "PtrM", "InnerPM", "unexpM", "Val", "PVal", "XXX_Size", "FnObj", "IntKeys", "NamedKey", "FnMap", "AnyFn", "NamedVar", "RetErr", "Strs"}},
		{"HShadow (method over promoted func field)", hs, []probe{{"Label()", 1}, {"Label() + \"!\"", 1}, {"Inner.Label()", 1}, {"Inner.Label() + \"!\"", 1}, {"HFuncs.Label()", 1}, {"HFuncs.Label() + 1", 1},
			{"Inner.HFuncs.Label() + 1", 1}, {"Tag()", 1}, {"Tag() + 1", 1}, {"HTagged2.Tag() + \"!\"", 1}, {"Cnt + 1", 1}, {"Other()", 1}, {"K", 1}},
			[]string{"Label", "Tag", "Cnt", "Other", "K", "Inner", "HFuncs", "HTagged2"}},
		{"*HShadow (pointer)", &hs, []probe{{"Label()", 1}, {"Other()", 1}, {"Tag()", 1}, {"Label() + \"!\"", 1}, {"Inner.Label() + \"!\"", 1}, {"HFuncs.Label() + 1", 1}, {"Tag() + 1", 1}, {"HTagged2.Tag() + \"!\"", 1}},
			[]string{"Label", "Tag", "Cnt", "Other", "K", "Inner", "HFuncs", "HTagged2"}},
		// the value form once more, after the pointer form has been compiled in
		// this process (what was compiled before must not widen what is accepted)
		{"HEnv (value, after *HEnv)", he, []probe{{"A", 1}, {"ValM(1)", 1}, {"PtrM()", -1}, {"InnerPM()", -1}, {"Val.InnerPM()", -1}, {"InnerM()", 1}},
			[]string{"A", "IV", "HInner", "Fn", "Obj", "ValM", "InnerM", "PtrM", "InnerPM", "unexpM", "Val", "PVal", "XXX_Size", "FnObj", "IntKeys", "NamedKey", "FnMap", "AnyFn", "NamedVar", "RetErr", "Strs"}},
		{"map[string]interface{}", map[string]interface{}{"a": 1, "s": "x", "f": func(i int) int { return i }, "obj": &HEnvObj{N: 2}, "n": nil},
			[]probe{{"a", 1}, {"s", 1}, {"f(1)", 1}, {"obj.N", 1}, {"obj.Get()", 1}, {"missing", 0}, {"A", 0}, {"n", -1}}, []string{"a", "s", "f", "obj", "n"}},
		{"Vars (named map[string]interface{})", Vars{"cnt": 3, "label": "x"}, []probe{{"cnt", 1}, {"label", 1}, {"cnt + 1", 1}, {"missing", 0}}, []string{"cnt", "label"}},
		{"VarsM (named map with a method)", VarsM{"cnt": 3, "label": "x"}, []probe{{"cnt", 1}, {"label", 1}, {"Size()", 1}, {"cnt + Size()", 1}, {"missing", 0}}, []string{"cnt", "label", "Size"}},
		{"TypedM (map[string]int with a method)", TypedM{"uno": 1, "due": 2}, []probe{{"uno", 1}, {"due + uno", 1}, {"Total()", 1}, {"tre", -1}}, []string{"uno", "due", "Total"}},
		{"map[string]int", map[string]int{"uno": 1}, []probe{{"uno", 1}, {"uno + 1", 1}}, []string{"uno"}},
		{"HSelf (embeds *HSelf)", HSelf{X: 1}, []probe{{"X", 1}, {"X + 1", 1}, {"HSelf", 1}, {"Y", 0}}, []string{"X", "HSelf"}},
		{"*HSelf", &HSelf{HSelf: &HSelf{X: 2}, X: 1}, []probe{{"X", 1}, {"HSelf.X", 1}}, []string{"X", "HSelf"}},
		{"map[string]func() int", map[string]func() int{"f": func() int { return 5 }}, []probe{{"f()", 1}, {"f() + 1", 1}}, []string{"f"}},
		// an unexported struct embedded by value at the top level: its exported
		// fields are promoted (Go and the VM resolve them), the struct itself is not a name
		{"WithHidden (unexported struct embedded by value)", WithHidden{hidden: hidden{H: 4, Dup: 5}, V: 6}, []probe{{"H", 1}, {"V", 1}, {"Dup", 1}, {"H + V", 1}, {"hidden", 0}, {"Missing", 0}}, []string{"H", "V", "Dup"}},
		{"*WithHidden", &WithHidden{hidden: hidden{H: 4, Dup: 5}, V: 6}, []probe{{"H", 1}, {"V", 1}, {"Dup + H", 1}, {"hidden", 0}}, []string{"H", "V", "Dup"}},
		{"map[HKey]int (keys of a defined string type)", map[HKey]int{"a": 1}, []probe{{"a", -1}, {"a + 1", -1}}, []string{}},
	}
	for _, cs := range cases {
		accepted := map[string]bool{}
		for _, p := range cs.probes {
			c.Distinct(cs.desc + "|" + p.src)
			ok := c16Judge(c, cs.desc, cs.env, p.src, p.goOK, nil)
			name := strings.SplitN(strings.SplitN(p.src, "(", 2)[0], ".", 2)[0]
			if !strings.ContainsAny(p.src, " +[") && !strings.HasPrefix(p.src, "len(") {
				if ok {
					accepted[name] = true
				} else if _, seen := accepted[name]; !seen {
					accepted[name] = false
				}
			}
		}
		c16Doc(c, cs.desc, cs.env, accepted)
	}
	c.Sample(map[string]interface{}{"environment_type": "HEnv (value)", "probes": []string{"A", "IV", "Fn(2)", "ValM(1)", "InnerM()", "PtrM()", "Obj.Set(3)"}})
}
