//go:build !race

package checks

const raceEnabled = false
