package checks

import (
	"fmt"
	"os"
	"path/filepath"
	"runtime"
	"strings"
	"sync"
	"sync/atomic"

	"github.com/antonmedv/expr"
	"github.com/antonmedv/expr/vm"

	"verif/internal/envs"
	"verif/internal/mon"
	"verif/internal/runner"
	"verif/internal/term"
)

// C08: a compiled program can be run concurrently.
// Deciding oracles: the Go race detector (the check is built with -race) and
// the comparison of every concurrent result with the sequential one.

var (
	c08Active    int64
	c08MaxActive int64
	c08Begins    int64
	c08YieldMod  int64 = 7
	c08Steps     int64
)

func c08Hook(e *vm.VerifEvent) {
	switch e.Kind {
	case vm.VerifBegin:
		atomic.AddInt64(&c08Begins, 1)
		n := atomic.AddInt64(&c08Active, 1)
		for {
			m := atomic.LoadInt64(&c08MaxActive)
			if n <= m || atomic.CompareAndSwapInt64(&c08MaxActive, m, n) {
				break
			}
		}
	case vm.VerifEnd:
		atomic.AddInt64(&c08Active, -1)
	case vm.VerifStep:
		// a scheduling point between two instructions
		if atomic.AddInt64(&c08Steps, 1)%atomic.LoadInt64(&c08YieldMod) == 0 {
			runtime.Gosched()
		}
	}
}

var c08Corpus = []string{
	`S matches "^a.*b$" or T matches "[0-9]+"`, `A in [1, 2, 3, 5, 8]`, `S in ["a", "b", "foo"]`, `[1, 2, 3][A % 3 < 0 ? 0 : A % 3]`, `["x", "y"][0] + S`,
	`FnI(A) + Inc(B)`, `It.Double() + PIt.Plus(2)`, `PIt.Label()`, `map(Ints, {# * 2})`, `filter(Items, {.ID > 0})`, `count(1..20, {# % 3 == 0})`,
	`A / Z`, `NilIt.Name`, `Ints[100]`, `S matches BadRe`, `1.5 * X + 2.25`, `{"a": A, "b": [S, T]}`, `A in 1..10`, `len(1..50) + len(S)`,
	`all(Strs, {# matches "^[a-z]*$"})`, `Fast(1, "a", X)`, `FnVar(1, 2, 3)`, `MA["a"] == nil`, `Anys[0] == nil ? 1 : 2`, `X ** 2 + F32`, `one(PItems, {# == nil})`,
	`S matches Re`, `T matches S + ".*"`, `any(Strs, {# matches Re})`, `count(Strs, {T matches "^" + # + "$"}) >= 0`, `It.Name matches (Re + "|" + S)`, `map(Items, {.Name matches Re})`,
	`"a\tb" + S`, `'\u00e9\x41' == T`, `S contains "\n" or T startsWith "q\"q"`, `["\\", "\a\b", 'x\'y'][A % 3 < 0 ? 0 : 1]`, `{"k\u0041": S + "\r\n"}`,
	`2 + 3 * 4 == 14`, `"con" + "cat" == "concat"`, `(1..5)[2]`, `A not in [10, 20] and S not in ["zz"]`,
	// folded sequences handed to a function that changes its argument in place
	`RevInts(1..5)`, `RevInts([3, 1, 2])[0]`, `RevInts(1..4) == [4, 3, 2, 1]`,
	// ... after an open-ended slice of the folded sequence, which measures it first
	`RevInts((1..6)[2:])`, `RevInts([7, 8, 9, 10][:])[0]`, `RevInts((1..5)[1:]) == [5, 4, 3, 2]`, `len(RevInts((1..9)[:4])) + RevInts((1..9)[:4])[0]`,
}

type c08Prog struct {
	src     string
	prog    *vm.Program
	mapForm bool // compiled against the map form of the environment
}

func c08Outcome(o Outcome) string {
	switch {
	case o.Panic != nil:
		return fmt.Sprintf("PANIC %v", o.Panic)
	case o.Err != nil:
		return "error: " + o.Err.Error()
	}
	return mon.Canon(o.Val)
}

func init() {
	runner.Register(&runner.Check{
		ID:     "C08",
		Level:  "exploration",
		Shards: 1,
		// a fatal runtime error (e.g. "concurrent map writes") while programs
		// run concurrently is itself a violation
		DeathIsViolation: true,
		Rule: "case = one stress round: N in {2,4,16,64} goroutines x M runs over a shared pool of 40-70 compiled programs (regexp, folded slice, lookup-map, call-descriptor, string and float constants; succeeding and failing) and 3 shared read-only environments (struct, pointer, map), interleaved with concurrent Compile calls sharing one option slice and one environment value; built with -race; the step hook yields the scheduler every k-th instruction (k from the seed); " +
			"distinct = distinct (round, program, environment) triples executed concurrently",
		Assumptions: []string{
			"the race detector sees only executed accesses",
			"environment functions of the harness are race-free (no logging in this check)",
		},
		WorkerEnv: func(dir string) []string {
			return []string{"GORACE=halt_on_error=0 log_path=" + filepath.Join(dir, "race"), "GOMAXPROCS=16"}
		},
		Init: func(c *runner.Ctx) {
			vm.VerifHook = c08Hook
		},
		Phases: []runner.Phase{
			{Name: "stress", Serial: true, N: func(tier string) uint64 {
				if tier == "thorough" {
					return 60
				}
				return 6
			}, Run: c08Round},
		},
		Finish: c08RaceReports,
		Post: func(a *runner.Aggregate) []string {
			var out []string
			if a.Counters["max_concurrently_active_runs"] < 2 {
				out = append(out, "runs never overlapped")
			}
			if a.Counters["race_detector_enabled"] == 0 {
				out = append(out, "the harness was not built with -race")
			}
			return out
		},
	})
}

func c08Round(c *runner.Ctx, idx uint64) {
	r := c.R
	atomic.StoreInt64(&c08YieldMod, int64(3+r.Intn(40)))
	// Shared read-only environments (no call log: logging would race). The
	// first three are also run sequentially BEFORE the concurrent phase, the
	// others only AFTER it, so that whatever the library initialises lazily on
	// first use is first used concurrently.
	var shared []interface{}
	for k := 0; k < 4; k++ {
		e := envs.New(nil)
		envs.Fill(e, 3, runner.NewRng(r.U64()))
		e.Re = []string{"^a.*", "b+$", "[xyz]", "^.{2,3}$"}[k]
		shared = append(shared, *e, e, envs.AsMap(e))
	}
	nEnv := len(shared) / 3
	sample := envs.New(nil)
	envs.Fill(sample, 2, runner.NewRng(1))
	sampleMap := envs.AsMap(sample)
	mkOpts := func() [][]expr.Option {
		return [][]expr.Option{
			{expr.Env(*sample)},
			{expr.Env(sample), expr.Optimize(false)},
			{expr.Env(sampleMap), expr.ConstExpr("FnI"), expr.ConstExpr("Cat")},
			{expr.Env(*sample), expr.AllowUndefinedVariables(), expr.Operator("+", "FnII")},
		}
	}
	seqOpts := mkOpts()   // used sequentially before the concurrent phase
	freshOpts := mkOpts() // first used inside the concurrent phase
	var sources []string
	sources = append(sources, c08Corpus...)
	for i := 0; i < 30; i++ {
		g := term.NewGen(r, i%2 == 0)
		func() {
			defer func() { recover() }()
			sources = append(sources, term.Print(g.Top(4+r.Intn(30)), term.PrintOpts{}))
		}()
	}
	digestOf := func(p *vm.Program, co Outcome) string {
		switch {
		case co.Panic != nil:
			return fmt.Sprintf("panic %v", co.Panic)
		case co.Err != nil:
			return "rejected: " + firstLine(co.Err.Error())
		}
		return mon.ProgramDigest(p)
	}
	type compiled struct {
		src    string
		set    int
		digest string
	}
	var seqCompiled []compiled
	var pool []*c08Prog
	for _, s := range sources {
		set := r.Intn(len(seqOpts))
		p, co := SafeCompile(s, seqOpts[set]...)
		c.Eval(1)
		seqCompiled = append(seqCompiled, compiled{s, set, digestOf(p, co)})
		if co.Failed() || p == nil {
			continue
		}
		pr := &c08Prog{src: s, prog: p, mapForm: set == 2}
		pool = append(pool, pr)
	}
	if len(pool) == 0 {
		c.Inconclusive("empty program pool")
		return
	}
	envFor := func(pr *c08Prog, k int) interface{} {
		// k selects environment value k/3 in form k%3; programs compiled
		// against the map form run on the map form
		if pr.mapForm {
			return shared[(k/3)*3+2]
		}
		return shared[k]
	}
	// sequential outcomes for the first environment value only, and only for
	// every other program: the rest are run for the first time inside the
	// concurrent phase (whatever a program initialises lazily on its first
	// run, or on its first failing run, is then initialised concurrently)
	want := map[*c08Prog][]string{}
	fresh := map[*c08Prog]bool{}
	for i, pr := range pool {
		w := make([]string, len(shared))
		if i%2 == 1 {
			fresh[pr] = true
		} else {
			for k := 0; k < 3; k++ {
				w[k] = c08Outcome(SafeRun(pr.prog, envFor(pr, k)))
				c.Eval(1)
			}
		}
		want[pr] = w
	}
	c.Count("programs_first_run_concurrently", int64(len(fresh)))
	N := []int{2, 4, 16, 64}[idx%4]
	M := 4000 / N
	if c.Thorough() {
		M = 12000 / N
	}
	c.Begin(fmt.Sprintf("round %d: %d goroutines x %d runs over %d programs", idx, N, M, len(pool)))
	type obs struct {
		pr      *c08Prog
		k       int
		got     string
		compile int // index into seqCompiled, -1 for runs
	}
	results := make([][]obs, N)
	var runs, compiles int64
	var wg sync.WaitGroup
	start := make(chan struct{})
	// burst steps: every goroutine makes the same run of a not yet run program
	// at the same moment (one barrier per step)
	var burst []*c08Prog
	for _, pr := range pool {
		if fresh[pr] && len(burst) < 16 {
			burst = append(burst, pr)
		}
	}
	bars := make([]sync.WaitGroup, len(burst))
	for i := range bars {
		bars[i].Add(N)
	}
	for g := 0; g < N; g++ {
		wg.Add(1)
		go func(g int, seed uint64) {
			defer wg.Done()
			rr := runner.NewRng(seed, uint64(g))
			<-start
			for bi, pr := range burst {
				bars[bi].Done()
				bars[bi].Wait()
				k := bi % len(shared)
				got := c08Outcome(SafeRun(pr.prog, envFor(pr, k)))
				atomic.AddInt64(&runs, 1)
				results[g] = append(results[g], obs{pr: pr, k: k, got: got, compile: -1})
			}
			for i := 0; i < M; i++ {
				if i == 0 || rr.Chance(1, 12) {
					// concurrent Compile sharing option values and the environment
					// value; the very first action of every goroutine, so that
					// the first use of the fresh options is concurrent
					ci := rr.Intn(len(seqCompiled))
					if i == 0 {
						ci = g % len(seqCompiled)
					}
					sc := seqCompiled[ci]
					p, co := SafeCompile(sc.src, freshOpts[sc.set]...)
					atomic.AddInt64(&compiles, 1)
					results[g] = append(results[g], obs{compile: ci, got: digestOf(p, co)})
					continue
				}
				pr := pool[rr.Intn(len(pool))]
				k := rr.Intn(len(shared))
				got := c08Outcome(SafeRun(pr.prog, envFor(pr, k)))
				atomic.AddInt64(&runs, 1)
				results[g] = append(results[g], obs{pr: pr, k: k, got: got, compile: -1})
			}
		}(g, r.U64())
	}
	close(start)
	wg.Wait()
	// sequential outcomes for the environments first used concurrently
	for _, pr := range pool {
		from := 3
		if fresh[pr] {
			from = 0
		}
		for k := from; k < len(shared); k++ {
			want[pr][k] = c08Outcome(SafeRun(pr.prog, envFor(pr, k)))
			c.Eval(1)
		}
	}
	c.Eval(int(runs + compiles))
	c.Count("concurrent_runs", runs)
	c.Count("concurrent_compiles", compiles)
	c.Count("goroutines_started", int64(N))
	c.Count("environment_values_first_used_concurrently", int64(nEnv-1))
	if m := atomic.LoadInt64(&c08MaxActive); m > c.Counters["max_concurrently_active_runs"] {
		c.Counters["max_concurrently_active_runs"] = m
	}
	c.Counters["run_begin_events"] = atomic.LoadInt64(&c08Begins)
	for _, pr := range pool {
		c.Distinct(fmt.Sprintf("%d|%s", idx, pr.src))
	}
	reported := 0
	for g := range results {
		for _, o := range results[g] {
			if reported >= 5 {
				break
			}
			if o.compile >= 0 {
				sc := seqCompiled[o.compile]
				if o.got != sc.digest {
					reported++
					c.Violate("concurrent-compile-differs", fmt.Sprintf("a concurrent Compile produced %s, the sequential one %s", clip(o.got, 160), clip(sc.digest, 160)),
						map[string]interface{}{"source": sc.src, "option_set": sc.set, "sequential": clip(sc.digest, 600), "concurrent": clip(o.got, 600), "goroutines": N})
				}
				continue
			}
			if w := want[o.pr][o.k]; o.got != w {
				reported++
				c.Violate("concurrent-result-differs", fmt.Sprintf("concurrent outcome %s, sequential outcome %s", clip(o.got, 200), clip(w, 200)),
					map[string]interface{}{"source": o.pr.src, "sequential": w, "concurrent": o.got, "environment": o.k, "goroutines": N})
			}
		}
	}
	c.Sample(map[string]interface{}{"round": idx, "goroutines": N, "runs_per_goroutine": M, "programs": len(pool), "example_program": pool[0].src})
	c08Extra(c, r, N)
}

func c08RaceReports(c *runner.Ctx) {
	if raceEnabled {
		c.Count("race_detector_enabled", 1)
	}
	files, _ := filepath.Glob(filepath.Join(runner.WorkDir("C08"), "race.*"))
	seen := map[string]bool{}
	total := 0
	for _, f := range files {
		b, err := os.ReadFile(f)
		if err != nil {
			continue
		}
		for _, block := range strings.Split(string(b), "==================") {
			if !strings.Contains(block, "WARNING: DATA RACE") {
				continue
			}
			total++
			// outermost/innermost expr frames of the two stacks
			var frames []string
			for _, line := range strings.Split(block, "\n") {
				line = strings.TrimSpace(line)
				if strings.HasPrefix(line, "github.com/antonmedv/expr") {
					fn := line
					if i := strings.Index(fn, "("); i > 0 {
						fn = fn[:i]
					}
					frames = append(frames, fn)
				}
			}
			if len(frames) == 0 {
				c.Count("race_reports_without_expr_frame", 1)
				continue
			}
			key := frames[0]
			if seen[key] {
				continue
			}
			seen[key] = true
			c.Violate("data-race:"+key, "the race detector reported a data race in the library: "+key,
				map[string]interface{}{"report": clip(block, 3000), "log_file": f})
		}
	}
	c.Count("race_reports", int64(total))
}
