package checks

import (
	"fmt"
	"regexp"
	"strings"

	"github.com/antonmedv/expr/ast"

	"verif/internal/ref"
	"verif/internal/runner"
	"verif/internal/term"
)

// C11: parsing follows the documented precedence and associativity.
// Model = the reference parser (internal/ref/parse.go). (1) tree -> minimal
// parentheses text -> Parse gives the same tree; (2) redundant parentheses and
// any layout do not change it; (3) token sequences parse to the reference tree
// or are rejected when the reference rejects.

func dumpNode(n ast.Node) string {
	list := func(ns []ast.Node) string {
		var out []string
		for _, x := range ns {
			out = append(out, dumpNode(x))
		}
		return strings.Join(out, ",")
	}
	switch x := n.(type) {
	case nil:
		return "nil"
	case *ast.NilNode:
		return "Nil{}"
	case *ast.IdentifierNode:
		return fmt.Sprintf("Identifier{%s,%v}", x.Value, x.NilSafe)
	case *ast.IntegerNode:
		return fmt.Sprintf("Integer{%d}", x.Value)
	case *ast.FloatNode:
		return fmt.Sprintf("Float{%v}", x.Value)
	case *ast.BoolNode:
		return fmt.Sprintf("Bool{%v}", x.Value)
	case *ast.StringNode:
		return fmt.Sprintf("String{%q}", x.Value)
	case *ast.ConstantNode:
		return fmt.Sprintf("Constant{%v}", x.Value)
	case *ast.UnaryNode:
		return fmt.Sprintf("Unary{%s,%s}", x.Operator, dumpNode(x.Node))
	case *ast.BinaryNode:
		return fmt.Sprintf("Binary{%s,%s,%s}", x.Operator, dumpNode(x.Left), dumpNode(x.Right))
	case *ast.MatchesNode:
		re := "nil"
		if x.Regexp != nil {
			re = "compiled"
		}
		return fmt.Sprintf("Matches{%s,%s,%s}", re, dumpNode(x.Left), dumpNode(x.Right))
	case *ast.PropertyNode:
		return fmt.Sprintf("Property{%s,%s,%v}", dumpNode(x.Node), x.Property, x.NilSafe)
	case *ast.IndexNode:
		return fmt.Sprintf("Index{%s,%s}", dumpNode(x.Node), dumpNode(x.Index))
	case *ast.SliceNode:
		return fmt.Sprintf("Slice{%s,%s,%s}", dumpNode(x.Node), dumpNode(x.From), dumpNode(x.To))
	case *ast.MethodNode:
		return fmt.Sprintf("Method{%s,%s,[%s],%v}", dumpNode(x.Node), x.Method, list(x.Arguments), x.NilSafe)
	case *ast.FunctionNode:
		return fmt.Sprintf("Function{%s,[%s]}", x.Name, list(x.Arguments))
	case *ast.BuiltinNode:
		return fmt.Sprintf("Builtin{%s,[%s]}", x.Name, list(x.Arguments))
	case *ast.ClosureNode:
		return fmt.Sprintf("Closure{%s}", dumpNode(x.Node))
	case *ast.PointerNode:
		return "Pointer{}"
	case *ast.ConditionalNode:
		return fmt.Sprintf("Cond{%s,%s,%s}", dumpNode(x.Cond), dumpNode(x.Exp1), dumpNode(x.Exp2))
	case *ast.ArrayNode:
		return fmt.Sprintf("Array{[%s]}", list(x.Nodes))
	case *ast.MapNode:
		return fmt.Sprintf("Map{[%s]}", list(x.Pairs))
	case *ast.PairNode:
		return fmt.Sprintf("Pair{%s,%s}", dumpNode(x.Key), dumpNode(x.Value))
	}
	return fmt.Sprintf("?%T", n)
}

// dumpTerm renders the tree the parser must build for a harness term.
func dumpTerm(t *term.Term) string {
	var d func(x *term.Term, chainNS bool) string
	list := func(xs []*term.Term) string {
		var out []string
		for _, x := range xs {
			out = append(out, d(x, false))
		}
		return strings.Join(out, ",")
	}
	// nsBelow: some accessor nearer to the root of this postfix chain... the
	// parser's flag is sticky from the first ?. onwards (left to right), i.e.
	// from the innermost nil-safe accessor outwards.
	var innerNS func(x *term.Term) bool
	innerNS = func(x *term.Term) bool {
		switch x.K {
		case term.KField, term.KMethod:
			if x.Short && x.Sub[0].K == term.KPointer {
				return false
			}
			return x.NilSafe || innerNS(x.Sub[0])
		case term.KIndex, term.KSlice:
			return innerNS(x.Sub[0])
		}
		return false
	}
	d = func(x *term.Term, _ bool) string {
		if x == nil {
			return "nil"
		}
		switch x.K {
		case term.KInt:
			return fmt.Sprintf("Integer{%d}", x.Int)
		case term.KFloat:
			return fmt.Sprintf("Float{%v}", x.Flt)
		case term.KStr:
			return fmt.Sprintf("String{%q}", x.Str)
		case term.KBool:
			return fmt.Sprintf("Bool{%v}", x.Bool)
		case term.KNil:
			return "Nil{}"
		case term.KIdent:
			return fmt.Sprintf("Identifier{%s,%v}", x.Op, x.NilSafe)
		case term.KPointer:
			return "Pointer{}"
		case term.KUnary:
			return fmt.Sprintf("Unary{%s,%s}", x.Op, d(x.Sub[0], false))
		case term.KBinary:
			if x.Op == "matches" {
				re := "nil"
				if x.Sub[1].K == term.KStr {
					re = "compiled"
				}
				return fmt.Sprintf("Matches{%s,%s,%s}", re, d(x.Sub[0], false), d(x.Sub[1], false))
			}
			return fmt.Sprintf("Binary{%s,%s,%s}", x.Op, d(x.Sub[0], false), d(x.Sub[1], false))
		case term.KField:
			return fmt.Sprintf("Property{%s,%s,%v}", objDump(x, d), x.Op, innerNS(x))
		case term.KMethod:
			return fmt.Sprintf("Method{%s,%s,[%s],%v}", objDump(x, d), x.Op, list(x.Sub[1:]), innerNS(x))
		case term.KIndex:
			return fmt.Sprintf("Index{%s,%s}", objDump(x, d), d(x.Sub[1], false))
		case term.KSlice:
			return fmt.Sprintf("Slice{%s,%s,%s}", objDump(x, d), d(x.Sub[1], false), d(x.Sub[2], false))
		case term.KCall:
			return fmt.Sprintf("Function{%s,[%s]}", x.Op, list(x.Sub))
		case term.KBuiltin:
			if len(x.Sub) == 1 {
				return fmt.Sprintf("Builtin{%s,[%s]}", x.Op, d(x.Sub[0], false))
			}
			return fmt.Sprintf("Builtin{%s,[%s,Closure{%s}]}", x.Op, d(x.Sub[0], false), d(x.Sub[1], false))
		case term.KCond:
			return fmt.Sprintf("Cond{%s,%s,%s}", d(x.Sub[0], false), d(x.Sub[1], false), d(x.Sub[2], false))
		case term.KArray:
			return fmt.Sprintf("Array{[%s]}", list(x.Sub))
		case term.KMap:
			var ps []string
			for i, v := range x.Sub {
				ps = append(ps, fmt.Sprintf("Pair{String{%q},%s}", x.Keys[i], d(v, false)))
			}
			return fmt.Sprintf("Map{[%s]}", strings.Join(ps, ","))
		}
		return "?"
	}
	return d(t, false)
}

// objDump renders the object of a postfix accessor: an identifier directly
// followed by ?. carries the nil-safe flag.
func objDump(x *term.Term, d func(*term.Term, bool) string) string {
	o := x.Sub[0]
	if o.K == term.KIdent && (x.K == term.KField || x.K == term.KMethod) && x.NilSafe {
		return fmt.Sprintf("Identifier{%s,true}", o.Op)
	}
	return d(o, false)
}

// c11Untyped builds random untyped trees over all forms.
type c11Gen struct {
	r     *runner.Rng
	depth int // closure depth
}

var c11Idents = []string{"a", "b", "foo", "Bar", "x1", "$v", "_u"}
var c11Unary = []string{"not", "!", "-", "+"}
var c11Names = []string{"f", "Name", "in", "and", "matches", "len", "x"} // "not" is left out: "x.not in y" lexes "not in" as one operator

func raw(k term.Kind, op string, sub ...*term.Term) *term.Term {
	return &term.Term{K: k, Op: op, Sub: sub}
}

func (g *c11Gen) gen(d int) *term.Term {
	r := g.r
	if d <= 0 || r.Chance(1, 6) {
		switch r.Intn(9) {
		case 0:
			return term.Int(r.Intn(1000))
		case 1:
			return term.Float([]float64{0.5, 1.5, 2.25, 10.0}[r.Intn(4)])
		case 2:
			return term.Str(r.Pick([]string{"", "a", "^a.*", "x y", "世", "(", ")", ".", "#", "?", ":", ",", "[", "]", "{", "}", "?.", "..", "not", "in", "+"}))
		case 3:
			return term.Bool(r.Bool())
		case 4:
			return term.Nil()
		case 5:
			if g.depth > 0 {
				return raw(term.KPointer, "")
			}
			fallthrough
		default:
			return raw(term.KIdent, r.Pick(c11Idents))
		}
	}
	switch r.Intn(16) {
	case 0, 1, 2, 3:
		b := raw(term.KBinary, term.BinOps[r.Intn(len(term.BinOps))], g.gen(d-1), g.gen(d-1))
		if b.Op == "matches" && b.Sub[1].K == term.KStr {
			// a literal pattern is compiled by the parser: keep it valid
			if _, err := regexp.Compile(b.Sub[1].Str); err != nil {
				b.Sub[1] = term.Str("^a.*")
			}
		}
		return b
	case 4, 5:
		return raw(term.KUnary, r.Pick(c11Unary), g.gen(d-1))
	case 6:
		c := g.gen(d - 1)
		if r.Chance(1, 4) {
			// elvis: a ?: b
			return raw(term.KCond, "", c, c, g.gen(d-1))
		}
		return raw(term.KCond, "", c, g.gen(d-1), g.gen(d-1))
	case 7:
		t := raw(term.KField, r.Pick(c11Names), g.gen(d-1))
		t.NilSafe = r.Chance(1, 3)
		if t.Sub[0].K == term.KPointer && !t.NilSafe && r.Bool() {
			t.Short = true
		}
		return t
	case 8:
		n := r.Intn(3)
		sub := []*term.Term{g.gen(d - 1)}
		for i := 0; i < n; i++ {
			sub = append(sub, g.gen(d-2))
		}
		t := raw(term.KMethod, r.Pick(c11Names), sub...)
		t.NilSafe = r.Chance(1, 3)
		return t
	case 9:
		return raw(term.KIndex, "", g.gen(d-1), g.gen(d-1))
	case 10:
		var a, b *term.Term
		if r.Bool() {
			a = g.gen(d - 2)
		}
		if r.Bool() {
			b = g.gen(d - 2)
		}
		return raw(term.KSlice, "", g.gen(d-1), a, b)
	case 11:
		n := r.Intn(3)
		var sub []*term.Term
		for i := 0; i < n; i++ {
			sub = append(sub, g.gen(d-1))
		}
		return raw(term.KCall, r.Pick([]string{"f", "Fn", "g1"}), sub...)
	case 12:
		if r.Chance(1, 3) {
			return raw(term.KBuiltin, "len", g.gen(d-1))
		}
		coll := g.gen(d - 1)
		g.depth++
		body := g.gen(d - 1)
		g.depth--
		return raw(term.KBuiltin, term.Builtins[1+r.Intn(7)], coll, body)
	case 13:
		n := r.Intn(4)
		var sub []*term.Term
		for i := 0; i < n; i++ {
			sub = append(sub, g.gen(d-1))
		}
		return term.Array(sub...)
	case 14:
		n := r.Intn(3)
		var keys []string
		var sub []*term.Term
		for i := 0; i < n; i++ {
			keys = append(keys, r.Pick([]string{"k", "foo", "a b", "1", "true", "Ünï"}))
			sub = append(sub, g.gen(d-1))
		}
		return term.Map(keys, sub)
	default:
		return raw(term.KIdent, r.Pick(c11Idents))
	}
}

// fixNilSafeIdents sets Identifier.NilSafe where the parser does.
func normalizeForDump(t *term.Term) {}

var c11Alphabet = []ref.PTok{
	{Kind: "ident", Text: "a"}, {Kind: "ident", Text: "b"}, {Kind: "number", Text: "1"}, {Kind: "string", Text: `")"`, Val: ")"}, {Kind: "ident", Text: "true"}, {Kind: "ident", Text: "nil"},
	{Kind: "op", Text: "+"}, {Kind: "op", Text: "-"}, {Kind: "op", Text: "*"}, {Kind: "op", Text: "**"}, {Kind: "op", Text: "=="}, {Kind: "op", Text: "<"}, {Kind: "op", Text: "and"}, {Kind: "op", Text: "or"},
	{Kind: "op", Text: "not"}, {Kind: "op", Text: "!"}, {Kind: "op", Text: "in"}, {Kind: "op", Text: ".."}, {Kind: "op", Text: "?"}, {Kind: "op", Text: ":"},
	{Kind: "bracket", Text: "("}, {Kind: "bracket", Text: ")"}, {Kind: "bracket", Text: "["}, {Kind: "bracket", Text: "]"}, {Kind: "op", Text: "."}, {Kind: "op", Text: "?."}, {Kind: "op", Text: ","},
	{Kind: "bracket", Text: "{"}, {Kind: "bracket", Text: "}"}, {Kind: "op", Text: "#"}, {Kind: "ident", Text: "len"}, {Kind: "ident", Text: "map"}, {Kind: "op", Text: "matches"}, {Kind: "op", Text: "%"},
	{Kind: "string", Text: `"s"`, Val: "s"}, {Kind: "string", Text: `"("`, Val: "("}, {Kind: "string", Text: `"."`, Val: "."}, {Kind: "string", Text: `"#"`, Val: "#"}, {Kind: "string", Text: `"?"`, Val: "?"}, {Kind: "string", Text: `":"`, Val: ":"}, {Kind: "string", Text: `","`, Val: ","}, {Kind: "string", Text: `"["`, Val: "["}, {Kind: "string", Text: `"?."`, Val: "?."},
}

// the first 28 tokens form the exhaustive alphabet
const c11Exhaustive = 28

func c11Tokens(c *runner.Ctx, toks []ref.PTok) {
	// adjacent "not" "in" lex as the single operator "not in"
	var norm []ref.PTok
	for _, t := range toks {
		if t.Kind == "op" && t.Text == "in" && len(norm) > 0 && norm[len(norm)-1].Kind == "op" && norm[len(norm)-1].Text == "not" {
			norm[len(norm)-1] = ref.PTok{Kind: "op", Text: "not in"}
			continue
		}
		norm = append(norm, t)
	}
	var parts []string
	for _, t := range toks {
		parts = append(parts, t.Text)
	}
	src := strings.Join(parts, " ")
	want, ok, why := ref.ParseTokens(norm)
	tree, po := safeParse(src)
	c.Eval(1)
	if po.Panic != nil {
		c.Violate("parse-panic", fmt.Sprint(po.Panic), map[string]interface{}{"source": src})
		return
	}
	if ok {
		c.Count("sequences_accepted_by_reference", 1)
		c.Distinct("tok|" + src)
	} else {
		c.Count("sequences_rejected_by_reference", 1)
	}
	switch {
	case ok && po.Err != nil:
		c.Violate("rejected-valid-sequence:"+errKeyOf(po.Err), "the parser rejects a token sequence the reference grammar accepts: "+firstLine(po.Err.Error()),
			map[string]interface{}{"source": src, "reference_tree": want})
	case !ok && po.Err == nil:
		c.Violate("accepted-invalid-sequence", "the parser accepts a token sequence the reference grammar rejects ("+why+")",
			map[string]interface{}{"source": src, "parsed_tree": dumpNode(tree.Node), "reference_error": why})
	case ok && po.Err == nil:
		if got := dumpNode(tree.Node); got != want {
			c.Violate("different-tree:"+treeDiffKey(want, got), "the parser builds a different tree than the reference grammar",
				map[string]interface{}{"source": src, "reference_tree": want, "parsed_tree": got})
		}
	}
}

// treeDiffKey names the first node kind at which two dumps diverge.
func treeDiffKey(a, b string) string {
	i := 0
	for i < len(a) && i < len(b) && a[i] == b[i] {
		i++
	}
	j := i
	for j > 0 && a[j-1] != '{' && a[j-1] != ',' && a[j-1] != '[' {
		j--
	}
	k := j
	for k < len(a) && a[k] != '{' && a[k] != ',' && a[k] != '}' {
		k++
	}
	if k > j+24 {
		k = j + 24
	}
	return a[j:k]
}

func c11Tree(c *runner.Ctx, t *term.Term, r *runner.Rng) {
	want := dumpTerm(t)
	// (0) harness self-check: the printer's text must parse to the term in the
	// reference grammar, otherwise the printer (not the library) is at fault
	min := term.Print(t, term.PrintOpts{})
	full := term.Print(t, term.PrintOpts{Full: true})
	laid, _, _ := term.Layout(r, term.Tokenize(min), true)
	c.Begin(min)
	for vi, src := range []string{min, full, laid} {
		variant := []string{"minimal-parentheses", "redundant-parentheses", "random-layout"}[vi]
		tree, po := safeParse(src)
		c.Eval(1)
		cas := map[string]interface{}{"source_quoted": fmt.Sprintf("%q", src), "variant": variant, "expected_tree": want}
		if po.Panic != nil {
			c.Violate("parse-panic", fmt.Sprint(po.Panic), cas)
			return
		}
		if po.Err != nil {
			c.Violate("printed-tree-rejected:"+variant+":"+errKeyOf(po.Err), "text printed from a tree is rejected: "+firstLine(po.Err.Error()), cas)
			return
		}
		if got := dumpNode(tree.Node); got != want {
			cas["parsed_tree"] = got
			c.Violate("round-trip:"+variant+":"+treeDiffKey(want, got), "printing a tree and parsing the text gives a different tree", cas)
			return
		}
		c.Count("round_trips_"+variant, 1)
	}
	c.Distinct("tree|" + min)
	if c.WantSample() {
		c.Sample(map[string]interface{}{"minimal": min, "redundant": full, "layout_quoted": fmt.Sprintf("%q", laid)})
	}
}

func init() {
	runner.Register(&runner.Check{
		ID:    "C11",
		Level: "exploration",
		Rule: "case = one syntax tree (printed with minimal parentheses, with redundant parentheses and with a random layout; each must parse back to the same tree) or one token sequence (must parse to the reference grammar's tree or be rejected exactly when the reference grammar rejects); trees: every operator pair in every operand position incl. under each unary operator and in each conditional arm (exhaustive, depth 3), random trees to depth 10 over all unary, binary, conditional (incl. ?:), postfix (. ?. [i] [a:b] and open forms), call, method, builtin+closure (# and .f), array and map forms; token sequences: all of length <= 4 (quick) / <= 5 (thorough) over a 28-token alphabet, random to length 30 over 34 tokens; " +
			"distinct = distinct printed trees plus distinct token sequences the reference grammar accepts",
		Assumptions: []string{
			"the reference grammar (internal/ref/parse.go, Appendix B of DESIGN.md) is the harness's restatement of the documented operator table",
			"the printer is checked against the reference grammar through the same round trip; a disagreement between the two references would show as a violation on the unchanged tree and was triaged by hand",
		},
		Phases: []runner.Phase{
			{Name: "operator-pairs", N: func(string) uint64 { return uint64(len(term.BinOps) * len(term.BinOps)) }, Run: func(c *runner.Ctx, idx uint64) {
				n := uint64(len(term.BinOps))
				op1, op2 := term.BinOps[idx/n], term.BinOps[idx%n]
				a, b, cc := raw(term.KIdent, "a"), raw(term.KIdent, "b"), raw(term.KIdent, "c")
				trees := []*term.Term{
					raw(term.KBinary, op1, raw(term.KBinary, op2, a, b), cc),
					raw(term.KBinary, op1, a, raw(term.KBinary, op2, b, cc)),
				}
				for _, u := range c11Unary {
					trees = append(trees,
						raw(term.KUnary, u, raw(term.KBinary, op1, a, b)),
						raw(term.KBinary, op1, raw(term.KUnary, u, a), b),
						raw(term.KBinary, op1, a, raw(term.KUnary, u, b)),
						raw(term.KBinary, op1, raw(term.KBinary, op2, a, raw(term.KUnary, u, b)), cc),
						// a unary operator over a binary operand, on either side of another operator
						raw(term.KBinary, op1, a, raw(term.KUnary, u, raw(term.KBinary, op2, b, cc))),
						raw(term.KBinary, op1, raw(term.KUnary, u, raw(term.KBinary, op2, a, b)), cc),
						raw(term.KBinary, op1, raw(term.KBinary, op1, a, raw(term.KUnary, u, b)), raw(term.KBinary, op2, b, cc)),
						raw(term.KUnary, u, raw(term.KUnary, c11Unary[(idx+1)%4], raw(term.KBinary, op2, a, b))),
					)
				}
				cond := raw(term.KCond, "", raw(term.KBinary, op1, a, b), raw(term.KBinary, op2, a, b), raw(term.KCond, "", a, b, cc))
				trees = append(trees, cond,
					raw(term.KBinary, op1, raw(term.KCond, "", a, b, cc), a),
					raw(term.KBinary, op1, a, raw(term.KCond, "", a, b, cc)),
					raw(term.KCond, "", raw(term.KCond, "", a, b, cc), a, b),
					raw(term.KIndex, "", raw(term.KBinary, op1, a, b), raw(term.KBinary, op2, a, b)),
					raw(term.KField, "f", raw(term.KBinary, op1, a, b)),
					raw(term.KSlice, "", a, raw(term.KBinary, op1, a, b), raw(term.KCond, "", a, b, cc)),
				)
				for _, t := range trees {
					c11Tree(c, t, c.R)
				}
				// the bare token sequences around a unary operator, against
				// the reference grammar (a printed tree never leaves a unary
				// operand of lower precedence without parentheses)
				id := func(s string) ref.PTok { return ref.PTok{Kind: "ident", Text: s} }
				op := func(s string) ref.PTok { return ref.PTok{Kind: "op", Text: s} }
				for _, u := range c11Unary {
					c11Tokens(c, []ref.PTok{id("a"), op(op1), op(u), id("b"), op(op2), id("c")})
					c11Tokens(c, []ref.PTok{op(u), id("a"), op(op1), id("b"), op(op2), id("c")})
					c11Tokens(c, []ref.PTok{id("a"), op(op1), op(u), op(u), id("b"), op(op2), op(u), id("c")})
				}
			}},
			{Name: "random-trees", N: func(tier string) uint64 {
				if tier == "thorough" {
					return 2500000
				}
				return 60000
			}, Run: func(c *runner.Ctx, idx uint64) {
				g := &c11Gen{r: c.R}
				t := g.gen(1 + c.R.Intn(10))
				c11Tree(c, t, c.R)
			}},
			{Name: "token-sequences", N: func(tier string) uint64 {
				n := uint64(c11Exhaustive)
				if tier == "thorough" {
					return n + n*n + n*n*n + n*n*n*n + n*n*n*n*n
				}
				return n + n*n + n*n*n + n*n*n*n
			}, Run: func(c *runner.Ctx, idx uint64) {
				n := uint64(c11Exhaustive)
				// decode idx into a sequence of length 1..5
				length := 1
				base := uint64(0)
				pow := n
				for idx >= base+pow {
					base += pow
					pow *= n
					length++
				}
				k := idx - base
				toks := make([]ref.PTok, length)
				for i := length - 1; i >= 0; i-- {
					toks[i] = c11Alphabet[k%n]
					k /= n
				}
				if idx%4096 == 0 {
					c.Begin(fmt.Sprint(toks))
				}
				c11Tokens(c, toks)
			}},
			{Name: "random-sequences", N: func(tier string) uint64 {
				if tier == "thorough" {
					return 6000000
				}
				return 150000
			}, Run: func(c *runner.Ctx, idx uint64) {
				r := c.R
				n := 1 + r.Intn(30)
				// grammar-biased: start from a printed tree's tokens, then perturb
				var toks []ref.PTok
				if idx%2 == 0 {
					for i := 0; i < n; i++ {
						toks = append(toks, c11Alphabet[r.Intn(len(c11Alphabet))])
					}
				} else {
					g := &c11Gen{r: r}
					t := g.gen(1 + r.Intn(5))
					for _, tk := range term.Tokenize(term.Print(t, term.PrintOpts{})) {
						if tk.Text == "?:" {
							toks = append(toks, ref.PTok{Kind: "op", Text: "?"}, ref.PTok{Kind: "op", Text: ":"})
							continue
						}
						toks = append(toks, classify(tk.Text))
					}
					for m := r.Intn(3); m > 0 && len(toks) > 0; m-- {
						p := r.Intn(len(toks))
						switch r.Intn(3) {
						case 0:
							toks = append(toks[:p], toks[p+1:]...)
						case 1:
							toks = append(toks[:p], append([]ref.PTok{c11Alphabet[r.Intn(len(c11Alphabet))]}, toks[p:]...)...)
						case 2:
							toks[p] = c11Alphabet[r.Intn(len(c11Alphabet))]
						}
					}
				}
				if len(toks) == 0 {
					return
				}
				if idx < 64 {
					c.Begin(fmt.Sprint(toks))
				}
				c11Tokens(c, toks)
			}},
		},
		Post: func(a *runner.Aggregate) []string {
			var out []string
			if a.Counters["sequences_accepted_by_reference"] == 0 || a.Counters["sequences_rejected_by_reference"] == 0 || a.Counters["round_trips_minimal-parentheses"] == 0 {
				out = append(out, "no accepted sequence, no rejected sequence or no round trip observed")
			}
			return out
		},
	})
}

// classify turns a printed token into a reference token.
func classify(s string) ref.PTok {
	switch s {
	case "(", ")", "[", "]", "{", "}":
		return ref.PTok{Kind: "bracket", Text: s}
	}
	ch := s[0]
	switch {
	case ch == '"' || ch == '\'':
		v := s
		if tr, po := safeLex(s); po.Err == nil && len(tr) > 0 {
			v = tr[0].Value
		}
		return ref.PTok{Kind: "string", Text: s, Val: v}
	case ch >= '0' && ch <= '9':
		return ref.PTok{Kind: "number", Text: s}
	}
	switch s {
	case "not", "in", "not in", "and", "or", "matches", "contains", "startsWith", "endsWith":
		return ref.PTok{Kind: "op", Text: s}
	}
	if ch == '_' || ch == '$' || ch >= 0x80 || (ch >= 'a' && ch <= 'z') || (ch >= 'A' && ch <= 'Z') {
		return ref.PTok{Kind: "ident", Text: s}
	}
	return ref.PTok{Kind: "op", Text: s}
}
