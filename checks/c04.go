package checks

import (
	"fmt"
	"os"
	"path/filepath"
	"strconv"
	"strings"
	"unicode/utf8"

	"github.com/antonmedv/expr"
	"github.com/antonmedv/expr/ast"
	"github.com/antonmedv/expr/vm"

	"verif/internal/envs"
	"verif/internal/mon"
	"verif/internal/runner"
	"verif/internal/term"
)

// C04: failures are returned as errors, never as panics.
// Monitor: every call of Parse/Compile/Eval/Run runs under recover() in a
// worker child process; the parent watches for worker death (fatal error,
// stack overflow) and for cases that do not terminate.

var c04Tokens = []string{
	"A", "B", "S", "P", "X", "Ints", "Items", "It", "PIt", "NilIt", "MA", "AnyI", "Missing", "true", "false", "nil", "len", "map", "filter", "all", "count", "FnI", "Inc", "Fast", "Div",
	"0", "1", "2", "1.5", "0x1F", "1e3", "1e999", "99999999999999999999", ".5", "1_0", "0b2", "08", "1.", "1..2", "0x", "1e", "1.5.5",
	`"a"`, `'b'`, `""`, `"\x"`, `"un`, `'a\'`, "`r`", `"世界"`, `"é"`, `"^a("`,
	"+", "-", "*", "/", "%", "**", "==", "!=", "<", "<=", ">", ">=", "&&", "||", "!", "and", "or", "not", "in", "not in", "matches", "contains", "startsWith", "endsWith", "..", "?", ":", ",", "#", ".", "?.", "?:",
	"(", ")", "[", "]", "{", "}", "|", "&", "=", "~", "@", ";", "$", "_", "世", "\x00", "\xff", "\n", "\t", "\\", "'", "\"",
}

type replaceVisitor struct {
	r     *runner.Rng
	every int
	n     int
	mode  int
}

func (v *replaceVisitor) Enter(*ast.Node) {}
func (v *replaceVisitor) Exit(n *ast.Node) {
	v.n++
	if v.every == 0 || v.n%v.every != 0 {
		return
	}
	id := func() ast.Node { return &ast.IdentifierNode{Value: "A"} }
	var nn ast.Node
	switch v.mode % 16 {
	case 0:
		nn = &ast.NilNode{}
	case 1:
		nn = &ast.IntegerNode{Value: 3}
	case 2:
		nn = &ast.FloatNode{Value: 2.5}
	case 3:
		nn = &ast.StringNode{Value: "p"}
	case 4:
		nn = &ast.BoolNode{Value: true}
	case 5:
		nn = &ast.ConstantNode{Value: []int{1, 2}}
	case 6:
		nn = &ast.ConstantNode{Value: map[string]interface{}{"k": 1}}
	case 7:
		nn = &ast.UnaryNode{Operator: "-", Node: *n} // wrap
	case 8:
		nn = &ast.BinaryNode{Operator: "+", Left: *n, Right: &ast.IntegerNode{Value: 1}}
	case 9:
		nn = &ast.ArrayNode{Nodes: []ast.Node{*n, id()}}
	case 10:
		nn = &ast.FunctionNode{Name: "FnI", Arguments: []ast.Node{*n}}
	case 11:
		nn = &ast.PointerNode{}
	case 12:
		nn = &ast.ConditionalNode{Cond: &ast.BoolNode{Value: true}, Exp1: *n, Exp2: id()}
	case 13:
		nn = &ast.MapNode{Pairs: []ast.Node{&ast.PairNode{Key: &ast.StringNode{Value: "k"}, Value: *n}}}
	case 14:
		nn = &ast.BuiltinNode{Name: "len", Arguments: []ast.Node{*n}}
	case 15:
		nn = &ast.IdentifierNode{Value: "Unknown"}
	}
	ast.Patch(n, nn)
}

// c04Options draws an option subset; desc names it.
func c04Options(r *runner.Rng) (opts []expr.Option, desc string, runEnvs []interface{}) {
	var parts []string
	log := &envs.Log{}
	e := envs.New(log)
	envs.Fill(e, 3, runner.NewRng(r.U64()))
	m := envs.AsMap(e)
	zero := envs.Env{} // nil function and interface members
	type nilMembers struct {
		F  func(int) int
		I  interface{}
		P  *envs.Item
		M  map[string]int
		Fn func(...interface{}) interface{}
	}
	panicky := envs.New(&envs.Log{PanicAt: 1})
	envs.Fill(panicky, 3, runner.NewRng(r.U64()))
	runEnvs = []interface{}{*e, e, m, nil, "a string", 42, zero, nilMembers{}, *panicky, map[string]interface{}{}, map[string]int{"A": 1}, []int{1}}
	switch k := r.Intn(9); k {
	case 0:
		parts = append(parts, "no Env")
	case 1:
		opts = append(opts, expr.Env(*e))
		parts = append(parts, "Env(struct)")
	case 2:
		opts = append(opts, expr.Env(e))
		parts = append(parts, "Env(*struct)")
	case 3:
		opts = append(opts, expr.Env(m))
		parts = append(parts, "Env(map)")
	case 4:
		opts = append(opts, expr.Env(map[string]int{"A": 1, "B": 2}))
		parts = append(parts, "Env(map[string]int)")
	case 5:
		opts = append(opts, expr.Env(nil))
		parts = append(parts, "Env(nil)")
	case 6:
		opts = append(opts, expr.Env(42))
		parts = append(parts, "Env(42)")
	case 7:
		opts = append(opts, expr.Env(zero))
		parts = append(parts, "Env(zero struct)")
	case 8:
		opts = append(opts, expr.Env(map[string]interface{}{"A": nil, "f": nil, "S": "x"}))
		parts = append(parts, "Env(map with nil values)")
	}
	if r.Chance(1, 3) {
		opts = append(opts, expr.AllowUndefinedVariables())
		parts = append(parts, "AllowUndefinedVariables")
	}
	if r.Chance(1, 3) {
		opts = append(opts, expr.Optimize(false))
		parts = append(parts, "Optimize(false)")
	}
	switch r.Intn(6) {
	case 0:
		opts = append(opts, expr.AsBool())
		parts = append(parts, "AsBool")
	case 1:
		opts = append(opts, expr.AsInt64())
		parts = append(parts, "AsInt64")
	case 2:
		opts = append(opts, expr.AsFloat64())
		parts = append(parts, "AsFloat64")
	}
	if r.Chance(1, 4) {
		ops := [][2]string{{"+", "FnII"}, {"+", "Missing"}, {"+", "FnI"}, {"-", "A"}, {"==", "FnAny"}, {"==", "EqAny"}, {"==", "StrEq"}, {"!=", "StrEq"}, {"+", "StrEq"}, {"!=", "EqAny"}, {"+", "EqAny"}, {"in", "EqAny"}, {"+", "Fast"}, {"*", "f"}, {"<", "Cat"}, {"+", ""}, {"in", "FnII"}, {"bogus", "FnII"}, {"+", "Inc"}}
		o := ops[r.Intn(len(ops))]
		opts = append(opts, expr.Operator(o[0], o[1]))
		parts = append(parts, fmt.Sprintf("Operator(%q,%q)", o[0], o[1]))
	}
	if r.Chance(1, 4) {
		ce := []string{"FnI", "Missing", "A", "Div", "Inc", "Fast", "MkItem", "FnAny", ""}[r.Intn(9)]
		opts = append(opts, expr.ConstExpr(ce))
		parts = append(parts, fmt.Sprintf("ConstExpr(%q)", ce))
	}
	if r.Chance(1, 3) {
		v := &replaceVisitor{r: r, every: 1 + r.Intn(4), mode: r.Intn(16)}
		opts = append(opts, expr.Patch(v))
		parts = append(parts, fmt.Sprintf("Patch(replace every %d-th node, mode %d)", v.every, v.mode))
		if r.Chance(1, 4) {
			v2 := &replaceVisitor{r: r, every: 2, mode: r.Intn(16)}
			opts = append(opts, expr.Patch(v2))
			parts = append(parts, fmt.Sprintf("Patch(mode %d)", v2.mode))
		}
	}
	return opts, strings.Join(parts, ","), runEnvs
}

func c04Sig(site string, pan interface{}) string {
	return site + "-panic:" + sigWords(fmt.Sprint(pan))
}

// c04Check feeds one input through Parse, Compile, Eval and Run.
func c04Check(c *runner.Ctx, src string, r *runner.Rng) {
	c.Begin(src)
	if len(src) > 65536 {
		src = src[:65536]
	}
	valid := utf8.ValidString(src)
	if valid {
		c.Count("inputs_valid_utf8", 1)
	} else {
		c.Count("inputs_invalid_utf8", 1)
	}
	cas := func(extra ...string) map[string]interface{} {
		m := map[string]interface{}{"input_quoted": clip(fmt.Sprintf("%q", src), 3000), "input_bytes": len(src)}
		for i := 0; i+1 < len(extra); i += 2 {
			m[extra[i]] = extra[i+1]
		}
		return m
	}
	// Parse
	tree, po := safeParse(src)
	c.Eval(1)
	switch {
	case po.Panic != nil:
		c.Violate(c04Sig("Parse", po.Panic), fmt.Sprintf("parser.Parse panicked: %v", po.Panic), cas())
	case po.Err != nil && tree != nil:
		c.Violate("Parse-error-with-tree", "Parse returned an error and a non-nil tree", cas())
	case po.Err == nil && (tree == nil || tree.Node == nil):
		c.Violate("Parse-nil-tree", "Parse returned neither an error nor a tree", cas())
	}
	if po.Err == nil {
		c.Count("inputs_parsed", 1)
	}
	// Compile with a drawn option subset
	opts, desc, runEnvs := c04Options(r)
	c.SetAdd("option_sets", optClass(desc))
	p, co := SafeCompile(src, opts...)
	c.Eval(1)
	switch {
	case co.Panic != nil:
		c.Violate(c04Sig("Compile", co.Panic), fmt.Sprintf("expr.Compile panicked: %v", co.Panic), cas("options", desc))
		return
	case co.Err != nil && p != nil:
		c.Violate("Compile-error-with-program", "Compile returned an error and a non-nil program", cas("options", desc))
	case co.Err == nil && p == nil:
		c.Violate("Compile-nil-program", "Compile returned neither an error nor a program", cas("options", desc))
	}
	if co.Err == nil && p != nil {
		c.Count("inputs_compiled", 1)
		c.Distinct(src + "|" + desc)
		// the program is usable: decodes, disassembles, runs without panic
		if _, errs := mon.Decode(p); len(errs) > 0 {
			c.Violate("Compile-unusable-program:"+sigWords(errs[0]), "Compile returned a malformed program: "+strings.Join(errs, "; "), cas("options", desc))
		}
		// (Disassemble builds its output by repeated string concatenation, which
		// is quadratic: it is by-catch here, not part of the property, and is
		// only exercised on programs of moderate size.)
		if len(p.Bytecode) < 20000 {
			func() {
				defer func() {
					if rec := recover(); rec != nil {
						c.Violate(c04Sig("Disassemble", rec), fmt.Sprintf("Program.Disassemble panicked: %v", rec), cas("options", desc))
					}
				}()
				_ = p.Disassemble()
			}()
		}
		for k := 0; k < 3; k++ {
			env := runEnvs[r.Intn(len(runEnvs))]
			o := SafeRun(p, env)
			c.Eval(1)
			c.Count("runs", 1)
			if o.Panic != nil {
				c.Violate(c04Sig("Run", o.Panic), fmt.Sprintf("expr.Run panicked: %v", o.Panic), cas("options", desc, "environment", fmt.Sprintf("%T", env)))
				break
			}
			if o.Err != nil {
				c.Count("runs_returned_error", 1)
				if o.Val != nil {
					c.Violate("Run-error-with-value", "Run returned an error and a non-nil value", cas("options", desc))
				}
			}
		}
	}
	// Eval on a hostile environment
	env := runEnvs[r.Intn(len(runEnvs))]
	eo := SafeEval(src, env)
	c.Eval(1)
	if eo.Panic != nil {
		c.Violate(c04Sig("Eval", eo.Panic), fmt.Sprintf("expr.Eval panicked: %v", eo.Panic), cas("environment", fmt.Sprintf("%T", env)))
	} else if eo.Err != nil && eo.Val != nil {
		c.Violate("Eval-error-with-value", "Eval returned an error and a non-nil value", cas())
	}
	if c.WantSample() {
		c.Sample(map[string]interface{}{"input_quoted": clip(fmt.Sprintf("%q", src), 200), "options": desc, "parsed": po.Err == nil, "compiled": co.Err == nil})
	}
}

func optClass(desc string) string {
	// keep the option kinds, drop parameters
	var out []string
	for _, p := range strings.Split(desc, ",") {
		if i := strings.Index(p, "("); i > 0 && !strings.HasPrefix(p, "Env(") {
			p = p[:i]
		}
		out = append(out, p)
	}
	return strings.Join(out, ",")
}

func mutateBytes(r *runner.Rng, s string) string {
	b := []byte(s)
	n := 1 + r.Intn(3)
	for i := 0; i < n; i++ {
		if len(b) == 0 {
			b = []byte("A")
		}
		pos := r.Intn(len(b))
		switch r.Intn(12) {
		case 0:
			b[pos] ^= byte(1 << uint(r.Intn(8)))
		case 1:
			ins := c04Tokens[r.Intn(len(c04Tokens))]
			b = append(b[:pos], append([]byte(ins), b[pos:]...)...)
		case 2:
			end := pos + 1 + r.Intn(4)
			if end > len(b) {
				end = len(b)
			}
			b = append(b[:pos], b[end:]...)
		case 3:
			end := pos + 1 + r.Intn(8)
			if end > len(b) {
				end = len(b)
			}
			chunk := append([]byte{}, b[pos:end]...)
			b = append(b[:end], append(chunk, b[end:]...)...)
		case 4:
			b = b[:pos]
		case 5:
			b[pos] = 0
		case 6:
			b = append(b[:pos], append([]byte{0xff, 0xfe}, b[pos:]...)...)
		case 7:
			b = append(b[:pos], append([]byte("\xed\xa0\x80"), b[pos:]...)...) // encoded surrogate
		case 8:
			b = append(b[:pos], append([]byte(strings.Repeat("9", 1+r.Intn(400))), b[pos:]...)...)
		case 9:
			b = append(b[:pos], append([]byte(strings.Repeat("x", 1+r.Intn(2000))), b[pos:]...)...)
		case 10:
			other := c04Tokens[r.Intn(len(c04Tokens))]
			b = append(b, ' ')
			b = append(b, other...)
		case 11:
			b = append([]byte("("), append(b, ')')...)
		}
	}
	return string(b)
}

func deepInput(r *runner.Rng, idx uint64) string {
	n := []int{10, 100, 1000, 5000, 16000, 32000}[r.Intn(6)]
	switch idx % 15 {
	case 14:
		// a ?: b nested on the left: the parser shares the node of a between
		// the condition and the first arm
		k := []int{8, 16, 30, 45, 200, 2000}[r.Intn(6)]
		return strings.Repeat("(", k) + "A" + strings.Repeat(" ?: 1)", k)
	case 0:
		return strings.Repeat("(", n) + "A" + strings.Repeat(")", n)
	case 1:
		return strings.Repeat("-", n) + "A"
	case 2:
		return strings.Repeat("[", n) + strings.Repeat("]", n)
	case 3:
		return "It" + strings.Repeat(".Next", n/5)
	case 4:
		return strings.Repeat("P ? A : ", n/8) + "B"
	case 5:
		return strings.Repeat("not ", n/4) + "P"
	case 6:
		return strings.Repeat("(", n) + "A"
	case 7:
		return "A" + strings.Repeat(" + A", n/4)
	case 8:
		return strings.Repeat("len(", n/4) + "S" + strings.Repeat(")", n/4)
	case 9:
		return strings.Repeat("map(Ints, {", n/12) + "#" + strings.Repeat("})", n/12)
	case 10:
		return strings.Repeat("{\"a\": ", n/7) + "1" + strings.Repeat("}", n/7)
	case 11:
		return "Ints" + strings.Repeat("[0:]", n/4)
	case 12:
		return strings.Repeat("A ?: ", n/5) + "B"
	default:
		return "\"" + strings.Repeat("\\u00e9", n/6) + "\""
	}
}

func init() {
	runner.Register(&runner.Check{
		ID:              "C04",
		Level:           "exploration",
		HangIsViolation: true,
		// panic(nil) in an environment function: with the Go semantics the
		// library's own go directive (1.13) selects, recover() returns nil
		WorkerEnv:        func(string) []string { return []string{"GODEBUG=panicnil=1"} },
		DeathIsViolation: true,
		Rule: "case = one input string x one drawn option subset x hostile run environments, fed to parser.Parse, expr.Compile, expr.Eval, expr.Run (and Program.Disassemble) under recover() inside a watched child process; inputs: every string of <= 2 tokens over an 113-token alphabet (3 tokens: exhaustive in thorough, sampled in quick), seeded token soup of 1-40 tokens, generated grammatical programs and their byte/token mutations (bit flips, insertions, deletions, duplications, truncation, NUL, invalid UTF-8, encoded surrogates, very long identifiers and numbers), deep nestings up to 64 KiB; options: Env in 9 forms, AllowUndefinedVariables, Optimize, As*, Operator (valid/missing/ill-shaped), ConstExpr (valid/missing/non-function/panicking), Patch with node-replacing visitors of 16 kinds; run environments: matching, nil, wrongly typed, nil members, panicking members; " +
			"distinct = distinct (input, option subset) pairs that compile",
		Assumptions: []string{"a panic raised by a harness visitor itself would be the user's; the harness visitors never panic", "inputs are bounded at 64 KiB", "a worker killed by a fatal runtime error or a case exceeding the watchdog is reported as a violation with the case named by the progress page"},
		Phases: []runner.Phase{
			{Name: "fuzz-corpus", Serial: true, N: func(string) uint64 { return 1 }, Run: c04FuzzCorpus},
			{Name: "tokens2", N: func(string) uint64 { return uint64(len(c04Tokens) * (len(c04Tokens) + 1)) }, Run: func(c *runner.Ctx, idx uint64) {
				n := uint64(len(c04Tokens))
				var src string
				if idx < n {
					src = c04Tokens[idx]
				} else {
					k := idx - n
					src = c04Tokens[k/n] + " " + c04Tokens[k%n]
					if c.R.Chance(1, 4) {
						src = c04Tokens[k/n] + c04Tokens[k%n]
					}
				}
				c04Check(c, src, c.R)
			}},
			{Name: "tokens3", N: func(tier string) uint64 {
				n := uint64(len(c04Tokens))
				if tier == "thorough" {
					return n * n * n
				}
				return 60000
			}, Run: func(c *runner.Ctx, idx uint64) {
				n := uint64(len(c04Tokens))
				k := idx
				if !c.Thorough() {
					k = c.R.U64() % (n * n * n)
				}
				src := c04Tokens[k/(n*n)] + " " + c04Tokens[(k/n)%n] + " " + c04Tokens[k%n]
				c04Check(c, src, c.R)
			}},
			{Name: "odd-environments", N: func(tier string) uint64 {
				if tier == "thorough" {
					return 200000
				}
				return 3000
			}, Run: c04Odd},
			{Name: "numeric-edges", N: func(tier string) uint64 {
				if tier == "thorough" {
					return 400000
				}
				return 12000
			}, Run: func(c *runner.Ctx, idx uint64) {
				// literals from the edges of the int domain and around the
				// optimizer's and the VM's size limits, in every position that
				// consumes a number
				r := c.R
				edges := []string{"0", "1", "-1", "2", "9223372036854775807", "9223372036854775806", "-9223372036854775807", "(-9223372036854775807 - 1)", "4611686018427387904", "-4611686018427387904",
					"999999", "1000000", "1000001", "65535", "65536", "2147483648", "4294967296", "9223372036854775808", "1e18", "1e19", "0.5", "-0", "1e-320", "1e308"}
				e := func() string { return r.Pick(edges) }
				forms := []string{"%s..%s", "len(%s..%s)", "A in %s..%s", "X not in %s..%s", "(%s..%s)[0]", "Ints[%s:%s]", "S[%s:%s]", "(1..3)[%s:%s]", "Ints[%s] + %s", "%s + %s", "%s - %s", "%s * %s", "%s / %s", "%s %% %s", "%s ** %s",
					"[%s, %s]", "A in [%s, %s]", "FnI(%s) + FnU8(%s)", "FnF(%s / %s)", "FnI64(%s * %s)", "Fast(%s, %s)", "%s < %s", "%s == %s", "map(%s..%s, {#})", "all(%s..%s, {# > 0})", "count(1..3, {# in %s..%s})",
					"{\"a\": %s}.a + %s", "P ? %s : %s", "-%s + -%s", "%s in 1..3 or A in %s..2", "filter(%s..%s, {# %% 2 == 0})"}
				src := fmt.Sprintf(r.Pick(forms), e(), e())
				if r.Chance(1, 4) {
					src = fmt.Sprintf(r.Pick([]string{"len(%s)", "[%s]", "(%s) == nil", "FnAny(%s)", "not (%s)", "[%s][0]"}), src)
				}
				c04Check(c, src, r)
			}},
			{Name: "soup", N: func(tier string) uint64 {
				if tier == "thorough" {
					return 6000000
				}
				return 120000
			}, Run: func(c *runner.Ctx, idx uint64) {
				r := c.R
				n := 1 + r.Intn(40)
				var sb strings.Builder
				for i := 0; i < n; i++ {
					sb.WriteString(c04Tokens[r.Intn(len(c04Tokens))])
					if r.Chance(4, 5) {
						sb.WriteByte(' ')
					}
				}
				c04Check(c, sb.String(), r)
			}},
			{Name: "grammatical", N: func(tier string) uint64 {
				if tier == "thorough" {
					return 3000000
				}
				return 60000
			}, Run: func(c *runner.Ctx, idx uint64) {
				r := c.R
				g := term.NewGen(r, true)
				var src string
				func() {
					defer func() { recover() }()
					src = term.Print(g.Top(2+r.Intn(40)), term.PrintOpts{})
				}()
				if src == "" {
					return
				}
				switch idx % 3 {
				case 1:
					src = mutateBytes(r, src)
				case 2:
					// ill-typed: swap in a sub-expression of another type
					g2 := term.NewGen(r, true)
					func() {
						defer func() { recover() }()
						other := term.Print(g2.Top(1+r.Intn(6)), term.PrintOpts{})
						ops := []string{" + ", " and ", " in ", " .. ", " matches ", " ? ", " == ", "[", ".", "("}
						src = src + ops[r.Intn(len(ops))] + other
						if r.Bool() {
							src = "(" + other + ")" + ops[r.Intn(len(ops))] + src
						}
					}()
				}
				c04Check(c, src, r)
			}},
			{Name: "deep", N: func(tier string) uint64 {
				if tier == "thorough" {
					return 3000
				}
				return 140
			}, Run: func(c *runner.Ctx, idx uint64) {
				save := vm.MemoryBudget
				defer func() { vm.MemoryBudget = save }()
				c04Check(c, deepInput(c.R, idx), c.R)
			}},
		},
		Post: func(a *runner.Aggregate) []string {
			var out []string
			if a.Counters["inputs_compiled"] == 0 || a.Counters["runs_returned_error"] == 0 || a.Counters["inputs_invalid_utf8"] == 0 {
				out = append(out, "no compiled input, no failing run or no invalid UTF-8 input observed")
			}
			return out
		},
	})
}

// C04Probe runs the C04 oracle on one input with the option subset and the
// environments drawn from sel; it returns the signatures of the violations.
func C04Probe(src string, sel uint64) []string {
	c := runner.NewProbeCtx("C04", sel)
	c04Check(c, src, runner.NewRng(sel))
	var out []string
	for _, v := range c.Violations {
		out = append(out, v.Sig)
	}
	return out
}

// C04FuzzSeeds are grammatical seeds for the native fuzzer.
func C04FuzzSeeds() []string {
	seeds := []string{`A + B * 2`, `all(Items, {.ID > 0 and .Name matches "^a"})`, `PIt?.Next?.Name ?: "x"`, `{"a": [1, 2.5, "s"], "b": nil}`, `Ints[1:3][0] in 1..10`,
		`FnI(A) + It.Plus(2) - len(S)`, `map(filter(1..9, {# % 2 == 0}), {# ** 2})`, `not (S contains "a") or P ? -X : +Y`, `"\u00e9\x41" + 'q' startsWith "é"`, `0x1F + 1e3 + .5 + 1_000`}
	r := runner.NewRng(4)
	for i := 0; i < 40; i++ {
		g := term.NewGen(r, true)
		func() {
			defer func() { recover() }()
			seeds = append(seeds, term.Print(g.Top(3+r.Intn(25)), term.PrintOpts{}))
		}()
	}
	return seeds
}

// c04FuzzCorpus re-judges, deterministically, every input the native fuzz
// stage has stored (crashers and interesting inputs) under
// fuzz/testdata/fuzz/FuzzExpr.
func c04FuzzCorpus(c *runner.Ctx, idx uint64) {
	home := os.Getenv("VERIF_HOME")
	if home == "" {
		home = "/verif"
	}
	files, _ := filepath.Glob(filepath.Join(home, "fuzz", "testdata", "fuzz", "FuzzExpr", "*"))
	if root := os.Getenv("VERIF_ROOT"); root != "" && root != home {
		more, _ := filepath.Glob(filepath.Join(root, "fuzz-crashers", "*"))
		files = append(files, more...)
	}
	for _, f := range files {
		b, err := os.ReadFile(f)
		if err != nil {
			continue
		}
		var src string
		var sel uint64
		for _, line := range strings.Split(string(b), "\n") {
			line = strings.TrimSpace(line)
			if strings.HasPrefix(line, "string(") && strings.HasSuffix(line, ")") {
				if u, err := strconv.Unquote(line[7 : len(line)-1]); err == nil {
					src = u
				}
			}
			if strings.HasPrefix(line, "uint64(") && strings.HasSuffix(line, ")") {
				sel, _ = strconv.ParseUint(line[7:len(line)-1], 10, 64)
			}
		}
		c.Count("fuzz_corpus_inputs_rejudged", 1)
		c04Check(c, src, runner.NewRng(sel))
	}
	if n := os.Getenv("VERIF_FUZZ_EXECS"); n != "" {
		if v, err := strconv.ParseInt(n, 10, 64); err == nil {
			c.Count("native_fuzz_executions", v)
		}
	}
}
