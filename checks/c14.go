package checks

import (
	"fmt"
	"math"
	"reflect"

	"github.com/antonmedv/expr"
	"github.com/antonmedv/expr/checker"
	"github.com/antonmedv/expr/conf"
	"github.com/antonmedv/expr/parser"
	"github.com/antonmedv/expr/vm"

	"verif/internal/mon"
	"verif/internal/ref"
	"verif/internal/runner"
	"verif/internal/term"
)

// C14: mixed-kind arithmetic follows one promotion rule.
// Model: rank order uint<uint8<..<uint64<int<int8<..<int64<float32<float64;
// expected = Go result after a Go conversion of the lower-ranked operand (integers reach float32 directly, not through float64).

type NumEnv struct {
	LU   uint
	LU8  uint8
	LU16 uint16
	LU32 uint32
	LU64 uint64
	LI   int
	LI8  int8
	LI16 int16
	LI32 int32
	LI64 int64
	LF32 float32
	LF64 float64
	RU   uint
	RU8  uint8
	RU16 uint16
	RU32 uint32
	RU64 uint64
	RI   int
	RI8  int8
	RI16 int16
	RI32 int32
	RI64 int64
	RF32 float32
	RF64 float64
}

var c14Suffix = []string{"U", "U8", "U16", "U32", "U64", "I", "I8", "I16", "I32", "I64", "F32", "F64"}

var c14Ops = []string{"+", "-", "*", "/", "%", "==", "!=", "<", "<=", ">", ">=", "**"}

// gridFor returns boundary values of kind k as reflect.Values of that kind.
func gridFor(k reflect.Kind) []reflect.Value {
	t := term.KindType(k)
	var out []reflect.Value
	addI := func(vs ...int64) {
		for _, v := range vs {
			out = append(out, reflect.ValueOf(v).Convert(t))
		}
	}
	addU := func(vs ...uint64) {
		for _, v := range vs {
			out = append(out, reflect.ValueOf(v).Convert(t))
		}
	}
	addF := func(vs ...float64) {
		for _, v := range vs {
			out = append(out, reflect.ValueOf(v).Convert(t))
		}
	}
	switch k {
	case reflect.Int8:
		addI(0, 1, -1, math.MinInt8, math.MaxInt8, math.MaxInt8-1, 2, -2, 100)
	case reflect.Int16:
		addI(0, 1, -1, math.MinInt16, math.MaxInt16, 255, 256, -129, 128)
	case reflect.Int32:
		addI(0, 1, -1, math.MinInt32, math.MaxInt32, 65535, 65536, 16777217, -32769)
	case reflect.Int64, reflect.Int:
		// 2^63-2^38-383 rounds to 2^63-2^39 as float32, but to 2^63 if taken through float64 first
		addI(0, 1, -1, math.MinInt64, math.MaxInt64, math.MaxInt64-1, 1<<53+1, 16777217, 255, 256, 65536, -129, math.MaxInt32+1, math.MinInt32-1, 1<<63-1<<38-383)
	case reflect.Uint8:
		addU(0, 1, math.MaxUint8, math.MaxUint8-1, 127, 128, 2)
	case reflect.Uint16:
		addU(0, 1, math.MaxUint16, 255, 256, 32767, 32768)
	case reflect.Uint32:
		addU(0, 1, math.MaxUint32, 65535, 65536, 1<<31-1, 1<<31, 16777217)
	case reflect.Uint64, reflect.Uint:
		addU(0, 1, math.MaxUint64, math.MaxUint64-1, 1<<63, 1<<63-1, 1<<53+1, 255, 256, 65536, 1<<32, 1<<64-1<<39-700)
	case reflect.Float32:
		addF(0, math.Copysign(0, -1), 1, -1, 0.5, 16777216, 16777217, math.MaxFloat32, math.SmallestNonzeroFloat32, math.Inf(1), math.Inf(-1), math.NaN(), -3.75, 1e10, 255.9, -129.5)
	case reflect.Float64:
		addF(0, math.Copysign(0, -1), 1, -1, 0.5, 1<<53, 1<<53+1, math.MaxFloat64, math.SmallestNonzeroFloat64, math.Inf(1), math.Inf(-1), math.NaN(), -3.75, 1e19, 9.3e18, 255.9, -129.5, 16777217)
	}
	return out
}

type c14Prog struct {
	typed, untyped *vm.Program
	checkerType    reflect.Type
	typedErr       error
}

func init() {
	progs := map[string]*c14Prog{}
	get := func(c *runner.Ctx, src string) *c14Prog {
		if p, ok := progs[src]; ok {
			return p
		}
		p := &c14Prog{}
		var co Outcome
		p.typed, co = SafeCompile(src, expr.Env(NumEnv{}))
		if co.Panic != nil {
			c.Violate("compile-panic", fmt.Sprint(co.Panic), map[string]interface{}{"source": src})
		}
		p.typedErr = co.Err
		p.untyped, co = SafeCompile(src)
		if co.Failed() {
			c.Violate("untyped-compile", "untyped compilation failed: "+co.String(), map[string]interface{}{"source": src})
		}
		func() {
			defer func() { recover() }()
			tree, err := parser.Parse(src)
			if err == nil {
				p.checkerType, _ = checker.Check(tree, conf.New(NumEnv{}))
			}
		}()
		c.Eval(3)
		progs[src] = p
		return p
	}

	judge := func(c *runner.Ctx, src, op string, a, b reflect.Value, unary bool, env NumEnv) {
		p := get(c, src)
		// expected
		var want interface{}
		wantFail := false
		floatOperand := a.CanFloat() || (!unary && b.CanFloat())
		switch {
		case unary:
			want = ref.Neg(a.Interface())
		case op == "**":
			want = math.Pow(ref.ToFloat(a.Interface()), ref.ToFloat(b.Interface()))
		case op == "%" && floatOperand:
			wantFail = true
		case op == "+" || op == "-" || op == "*" || op == "/" || op == "%":
			v, f := ref.Arith(op, a.Interface(), b.Interface())
			if f != nil {
				wantFail = true
			} else {
				want = v
			}
		default:
			want = ref.Compare(op, a.Interface(), b.Interface())
		}
		cas := func(mode string, o Outcome) map[string]interface{} {
			m := map[string]interface{}{"source": src, "mode": mode, "left": mon.Short(a.Interface()), "real": o.String()}
			if !unary {
				m["right"] = mon.Short(b.Interface())
			}
			if wantFail {
				m["expected"] = "failure"
			} else {
				m["expected"] = mon.Short(want)
			}
			return m
		}
		kinds := a.Kind().String()
		if !unary {
			kinds += "," + b.Kind().String()
		}
		sigBase := fmt.Sprintf("%s(%s)", op, kinds)
		if unary {
			sigBase = fmt.Sprintf("neg(%s)", kinds)
		}
		c.SetAdd("kind_pairs_x_operator", sigBase)
		for mode, prog := range map[string]*vm.Program{"typed": p.typed, "untyped": p.untyped} {
			if prog == nil {
				if mode == "typed" && wantFail && op == "%" && floatOperand {
					c.Count("float_modulo_rejected_statically", 1)
					continue
				}
				if mode == "typed" {
					c.Violate("typed-compile:"+sigBase, "typed compilation failed: "+fmt.Sprint(p.typedErr), cas(mode, Outcome{Err: p.typedErr}))
				}
				continue
			}
			o := SafeRun(prog, env)
			c.Eval(1)
			switch {
			case o.Panic != nil:
				c.Violate("run-panic:"+sigBase, fmt.Sprint(o.Panic), cas(mode, o))
			case wantFail && !o.Failed():
				c.Violate("should-fail:"+sigBase, "operation must fail (integer division by zero / modulo on floats) but returned a value", cas(mode, o))
			case !wantFail && o.Failed():
				c.Violate("should-succeed:"+sigBase, "operation failed: "+o.String(), cas(mode, o))
			case !wantFail && mon.Canon(o.Val) != mon.Canon(want):
				c.Violate("value:"+sigBase, fmt.Sprintf("got %s want %s", mon.Short(o.Val), mon.Short(want)), cas(mode, o))
			default:
				c.Count("agreed", 1)
			}
			if mode == "typed" && !wantFail && !o.Failed() && p.checkerType != nil && o.Val != nil {
				if reflect.TypeOf(o.Val) != p.checkerType {
					c.Violate("checker-kind:"+sigBase, fmt.Sprintf("checker reports %v, run returns %T", p.checkerType, o.Val), cas(mode, o))
				}
			}
		}
	}

	setField := func(env *NumEnv, name string, v reflect.Value) {
		reflect.ValueOf(env).Elem().FieldByName(name).Set(v)
	}

	runner.Register(&runner.Check{
		ID:    "C14",
		Level: "exploration",
		Rule: "case = (left kind, right kind, operator, left value, right value, typed|untyped compilation); all 12x12 ordered kind pairs x {+ - * / % == != < <= > >= **} plus unary minus on 12 kinds (exhaustive: true for that space) x a boundary grid of 7-18 values per kind, plus seeded random bit patterns; " +
			"distinct = distinct (operator, kinds, values) tuples",
		Assumptions: []string{
			"expected results are computed by family (signed/unsigned/float32/float64) after a Go conversion of the lower-ranked operand (integers reach float32 directly, not through float64); rank order as in the property",
			"one architecture (64-bit int)",
		},
		Phases: []runner.Phase{
			{
				Name: "grid",
				N:    func(string) uint64 { return 144 },
				Run: func(c *runner.Ctx, idx uint64) {
					li, ri := int(idx)/12, int(idx)%12
					lk, rk := term.NumKinds[li], term.NumKinds[ri]
					ln, rn := "L"+c14Suffix[li], "R"+c14Suffix[ri]
					c.Begin(fmt.Sprintf("grid %s x %s", ln, rn))
					lg, rg := gridFor(lk), gridFor(rk)
					// random extras
					for i := 0; i < 6; i++ {
						lg = append(lg, randomOfKind(c.R, lk))
						rg = append(rg, randomOfKind(c.R, rk))
					}
					if !c.Thorough() {
						// quick: boundary grid but a bounded number of pairs
						if len(lg) > 12 {
							lg = append(lg[:9:9], lg[len(lg)-3:]...)
						}
						if len(rg) > 12 {
							rg = append(rg[:9:9], rg[len(rg)-3:]...)
						}
					}
					for _, op := range c14Ops {
						src := fmt.Sprintf("%s %s %s", ln, op, rn)
						for _, a := range lg {
							for _, b := range rg {
								var env NumEnv
								setField(&env, ln, a)
								setField(&env, rn, b)
								judge(c, src, op, a, b, false, env)
								c.Distinct(fmt.Sprintf("%s|%v|%v", src, mon.Canon(a.Interface()), mon.Canon(b.Interface())))
							}
						}
					}
					if ri == 0 {
						src := "-" + ln
						for _, a := range lg {
							var env NumEnv
							setField(&env, ln, a)
							judge(c, src, "-", a, a, true, env)
							c.Distinct(fmt.Sprintf("%s|%v", src, mon.Canon(a.Interface())))
						}
					}
					if idx%29 == 0 {
						c.Sample(map[string]interface{}{"source": fmt.Sprintf("%s + %s", ln, rn), "left_values": len(lg), "right_values": len(rg), "operators": c14Ops})
					}
				},
			},
			{
				// int and float literals of equal value in one program: each
				// keeps its own kind (`I / 2` truncates, `I / 2.0` does not)
				Name: "literals",
				N:    func(string) uint64 { return 12 * 7 * 2 },
				Run: func(c *runner.Ctx, idx uint64) {
					ops := []string{"+", "-", "*", "/", "==", "<", ">="}
					ki, oi, lit := int(idx)/14, int(idx)/2%7, int(idx)%2 == 0
					k, name, op := term.NumKinds[ki], "L"+c14Suffix[ki], ops[oi]
					c.Begin(fmt.Sprintf("literals %s %s", name, op))
					vals := gridFor(k)
					for i := 0; i < 4; i++ {
						vals = append(vals, randomOfKind(c.R, k))
					}
					for _, n := range []int{1, 2, 3, 7, 10, 100} {
						is, fs := fmt.Sprint(n), fmt.Sprintf("%d.0", n)
						var src string
						if lit {
							src = fmt.Sprintf("[%s %s %s, %s %s %s, %s %s %s]", is, op, name, fs, op, name, is, op, name)
						} else {
							src = fmt.Sprintf("[%s %s %s, %s %s %s, %s %s %s]", name, op, fs, name, op, is, name, op, fs)
						}
						p := get(c, src)
						for _, a := range vals {
							var env NumEnv
							setField(&env, name, a)
							one := func(lv interface{}) interface{} {
								x, y := a.Interface(), lv
								if lit {
									x, y = y, x
								}
								switch op {
								case "+", "-", "*", "/":
									v, f := ref.Arith(op, x, y)
									if f != nil {
										return "fails"
									}
									return v
								}
								return ref.Compare(op, x, y)
							}
							wi, wf := one(n), one(float64(n))
							if wi == "fails" || wf == "fails" {
								continue
							}
							want := []interface{}{wi, wf, wi}
							if !lit {
								want = []interface{}{wf, wi, wf}
							}
							c.Distinct(fmt.Sprintf("%s|%v", src, mon.Canon(a.Interface())))
							c.Count("literal_cases", 1)
							for mode, prog := range map[string]*vm.Program{"typed": p.typed, "untyped": p.untyped} {
								if prog == nil {
									continue
								}
								o := SafeRun(prog, env)
								c.Eval(1)
								if o.Failed() || mon.Canon(o.Val) != mon.Canon(want) {
									c.Violate(fmt.Sprintf("literal-kinds:%s(%s)", op, a.Kind()), fmt.Sprintf("got %s want %s", o.String(), mon.Short(want)),
										map[string]interface{}{"source": src, "mode": mode, "operand": mon.Short(a.Interface()), "expected": mon.Short(want), "real": o.String()})
								} else {
									c.Count("agreed", 1)
								}
							}
						}
					}
				},
			},
			{
				Name: "random",
				N: func(tier string) uint64 {
					if tier == "thorough" {
						return 8000000
					}
					return 100000
				},
				Run: func(c *runner.Ctx, idx uint64) {
					r := c.R
					li, ri := r.Intn(12), r.Intn(12)
					lk, rk := term.NumKinds[li], term.NumKinds[ri]
					ln, rn := "L"+c14Suffix[li], "R"+c14Suffix[ri]
					op := c14Ops[r.Intn(len(c14Ops))]
					a, b := randomOfKind(r, lk), randomOfKind(r, rk)
					var env NumEnv
					setField(&env, ln, a)
					setField(&env, rn, b)
					src := fmt.Sprintf("%s %s %s", ln, op, rn)
					judge(c, src, op, a, b, false, env)
					c.Distinct(fmt.Sprintf("%s|%v|%v", src, mon.Canon(a.Interface()), mon.Canon(b.Interface())))
				},
			},
		},
		Post: func(a *runner.Aggregate) []string {
			want := 144*len(c14Ops) + 12
			if n := len(a.Sets["kind_pairs_x_operator"]); n < want {
				return []string{fmt.Sprintf("only %d of %d (kind pair, operator) combinations were exercised", n, want)}
			}
			return nil
		},
	})
}

func randomOfKind(r *runner.Rng, k reflect.Kind) reflect.Value {
	t := term.KindType(k)
	bits := r.U64()
	if r.Bool() {
		bits >>= uint(r.Intn(64))
	}
	switch k {
	case reflect.Float32:
		f := math.Float32frombits(uint32(bits))
		if r.Bool() {
			f = float32(int64(bits%2000)-1000) / 8
		}
		return reflect.ValueOf(f)
	case reflect.Float64:
		f := math.Float64frombits(bits)
		if r.Bool() {
			f = float64(int64(bits%200000)-100000) / 16
		}
		return reflect.ValueOf(f)
	case reflect.Int, reflect.Int8, reflect.Int16, reflect.Int32, reflect.Int64:
		return reflect.ValueOf(int64(bits)).Convert(t)
	}
	return reflect.ValueOf(bits).Convert(t)
}
