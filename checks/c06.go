package checks

import (
	"fmt"
	"math"
	"reflect"
	"strings"

	"github.com/antonmedv/expr"
	"github.com/antonmedv/expr/vm"

	"verif/internal/envs"
	"verif/internal/mon"
	"verif/internal/ref"
	"verif/internal/runner"
	"verif/internal/term"
)

// C06: the memory budget bounds what a run can allocate.
// Black-box oracle: the reference evaluator predicts, for budget B, whether
// the evaluation (which creates A elements in total when unbounded) completes:
// it must fail exactly when the running total reaches B. Hook oracle:
// conservation of the allocation counter on every allocation event.

// allocTerm builds an expression made of 1..12 allocation sites whose sizes are
// chosen by the environment at run time.
func allocTerm(g *term.Gen, sites int) *term.Term {
	r := g.R
	sc := g.Sc
	id := func(n string) *term.Term { t, _ := term.Ident(sc, n); return t }
	must := func(t *term.Term, err error) *term.Term {
		if err != nil {
			panic("HARNESS-BUG allocTerm: " + err.Error())
		}
		return t
	}
	bound := func() *term.Term {
		switch r.Intn(7) {
		case 0:
			return id("A")
		case 1:
			return id("B")
		case 2:
			return id("C")
		case 3:
			return id("Z")
		case 4:
			return must(term.Binary(sc, r.Pick([]string{"+", "-"}), id(r.Pick([]string{"A", "B", "C"})), term.Int(r.Intn(4))))
		case 5:
			return must(term.Unary(sc, "-", id(r.Pick([]string{"A", "B"}))))
		default:
			return id(r.Pick([]string{"I", "I64", "U8"}))
		}
	}
	var site func(depth int) *term.Term
	site = func(depth int) *term.Term {
		switch k := r.Intn(10); {
		case k <= 2 || depth > 2:
			return must(term.Binary(sc, "..", bound(), bound()))
		case k == 9:
			// membership in a range whose bounds are chosen at run time: the
			// range is built to be searched
			lo, hi := bound(), bound()
			if r.Bool() {
				lo, hi = id(r.Pick([]string{"A", "B", "Z"})), id(r.Pick([]string{"A", "B", "C"}))
			}
			return must(term.Binary(sc, r.Pick([]string{"in", "not in"}), id(r.Pick([]string{"A", "B", "C", "Z", "I"})), must(term.Binary(sc, "..", lo, hi))))
		case k == 3:
			// array literal of run-time values (possibly nested allocations)
			n := r.Intn(5)
			var el []*term.Term
			for i := 0; i < n; i++ {
				if r.Chance(1, 3) {
					el = append(el, site(depth+1))
				} else {
					el = append(el, id(r.Pick([]string{"A", "B", "S", "P", "X"})))
				}
			}
			return term.Array(el...)
		case k == 4:
			n := r.Intn(4)
			keys := []string{"a", "b", "c", "d"}
			var vs []*term.Term
			for i := 0; i < n; i++ {
				if r.Chance(1, 3) {
					vs = append(vs, site(depth+1))
				} else {
					vs = append(vs, id(r.Pick([]string{"A", "S", "P"})))
				}
			}
			return term.Map(keys[:n], vs)
		case k == 5:
			coll := site(depth + 1)
			if !term.IsSlice(coll.T) {
				coll = must(term.Binary(sc, "..", bound(), bound()))
			}
			return builtinOn(g, "map", coll, depth)
		case k == 6:
			coll := must(term.Binary(sc, "..", bound(), bound()))
			return builtinOn(g, "filter", coll, depth)
		case k == 7:
			return builtinOn(g, r.Pick([]string{"map", "filter"}), id(r.Pick([]string{"Ints", "Ints2"})), depth)
		default:
			// allocation inside a loop body
			coll := must(term.Binary(sc, "..", term.Int(1), id(r.Pick([]string{"Z", "A", "B"}))))
			et, _ := term.ElemOf(sc, coll)
			sc.Elems = append(sc.Elems, et)
			inner := must(term.Binary(sc, "..", bound(), bound()))
			body := must(term.Len(sc, inner))
			sc.Elems = sc.Elems[:len(sc.Elems)-1]
			return must(term.Builtin2(sc, "map", coll, body))
		}
	}
	var el []*term.Term
	for i := 0; i < sites; i++ {
		s := site(0)
		if r.Bool() && s.T != term.BoolT {
			s = must(term.Len(sc, s))
		}
		el = append(el, s)
	}
	if len(el) == 1 && r.Bool() {
		return el[0]
	}
	return term.Array(el...)
}

func builtinOn(g *term.Gen, op string, coll *term.Term, depth int) *term.Term {
	sc := g.Sc
	et, err := term.ElemOf(sc, coll)
	if err != nil {
		panic("HARNESS-BUG builtinOn: " + err.Error())
	}
	sc.Elems = append(sc.Elems, et)
	p, _ := term.Pointer(sc)
	var body *term.Term
	if op == "filter" {
		if et == term.IntT {
			body, _ = term.Binary(sc, g.R.Pick([]string{">", "<", "!="}), p, term.Int(g.R.Intn(5)))
		} else {
			body = term.Bool(g.R.Bool())
		}
	} else {
		if et == term.IntT && g.R.Bool() {
			body, _ = term.Binary(sc, "*", p, term.Int(2))
		} else {
			body = p
		}
	}
	sc.Elems = sc.Elems[:len(sc.Elems)-1]
	out, err := term.Builtin2(sc, op, coll, body)
	if err != nil {
		panic("HARNESS-BUG builtinOn: " + err.Error())
	}
	return out
}

func c06Env(r *runner.Rng) *EnvPair {
	pair := NewEnvPair(3, r.U64())
	vals := []int{0, 1, 2, 3, 5, 8, 13, 21, 40, -1, -3, -10, 100}
	// one environment in 16 takes every bound from the edges of the int
	// domain, so that pairs whose distance overflows (to 0, to -1, to
	// MinInt64) occur among the run-time ranges
	edges := []int{9223372036854775807, -9223372036854775808, 9223372036854775806, -9223372036854775807, 0, -1, 1, 4611686018427387904, -4611686018427387904}
	extreme := r.Chance(1, 16)
	pick := func() int {
		if extreme {
			return edges[r.Intn(len(edges))]
		}
		if r.Chance(1, 40) {
			return []int{9223372036854775807, -9223372036854775808, 9223372036854775806, 4611686018427387904, 1 << 31}[r.Intn(5)]
		}
		return vals[r.Intn(len(vals))]
	}
	a, b, cc, i, i64, u8 := pick(), pick(), pick(), pick(), pick(), uint8(r.Intn(30))
	for _, e := range []*envs.Env{pair.Real, pair.Ref} {
		e.A, e.B, e.C, e.I, e.I64, e.U8 = a, b, cc, i, int64(i64), u8
	}
	return pair
}

func init() {
	runner.Register(&runner.Check{
		ID:    "C06",
		Level: "exploration",
		Rule: "case = (allocating expression, environment choosing the bounds, budget B); expressions combine 1-12 allocation sites (run-time ranges incl. empty and descending, array and map literals, map/filter results, allocations inside loop bodies), compiled with Optimize(false) for the black-box oracle and with both settings for the hook oracle, run on a fresh VM or on one VM value reused for the whole worker; budgets {1,2,3,A-1,A,A+1,2A,default} around the reference allocation total A; " +
			"distinct = distinct (source, environment, budget) triples whose reference evaluation creates at least one element",
		Assumptions: []string{
			"the reference evaluator counts created elements as the property states (ranges max(0,b-a+1), literals their length, filter its matches, map its input length)",
			"vm.MemoryBudget is process-global: each worker process sets one budget at a time",
		},
		Phases: []runner.Phase{
			{
				Name: "budget",
				N: func(tier string) uint64 {
					if tier == "thorough" {
						return 600000
					}
					return 16000
				},
				Run: c06Case,
			},
		},
		Post: func(a *runner.Aggregate) []string {
			var out []string
			if a.Counters["alloc_events"] == 0 {
				out = append(out, "no allocation event observed")
			}
			if a.Counters["budget_failures_agreed"] == 0 || a.Counters["successes_agreed"] == 0 {
				out = append(out, "the budget was never reached or never respected in any run")
			}
			return out
		},
	})
}

var c06VM = &vm.VM{}

// c06Bounds: range bounds that are not representable as int (a uint64 above
// MaxInt64, a float beyond the int domain held by a dynamic member). The
// number of elements such a range needs is known without building it.
func c06Bounds(c *runner.Ctx) {
	type tc struct {
		src        string
		mustRefuse bool // needs more elements than any budget
		empty      bool // end precedes start: creates nothing, must not be refused
	}
	cases := []tc{
		{"0..U64", true, false}, {"len(0..U64)", true, false}, {"A..U64", true, false}, {"[1, 2, 0..U64]", true, false},
		{"U64..5", false, true}, {"len(U64..5)", false, true}, {"U64..A", false, true},
		{"0..U", true, false}, {"U..3", false, true},
	}
	save := vm.MemoryBudget
	defer func() { vm.MemoryBudget = save }()
	for _, budget := range []int{10, 1000, defaultBudget} {
		vm.MemoryBudget = budget
		for _, k := range cases {
			c.Begin(fmt.Sprintf("bounds: %s budget=%d", k.src, budget))
			e := envs.New(&envs.Log{})
			envs.Fill(e, 3, runner.NewRng(5))
			e.U64, e.U, e.A = 1<<63+5, 1<<63+9, 2
			env := envs.AsMap(e)
			p, co := SafeCompile(k.src, expr.Env(env))
			c.Eval(1)
			if co.Failed() {
				c.Count("bound_cases_rejected", 1)
				continue
			}
			o := SafeRun(p, env)
			c.Eval(1)
			c.Count("bound_cases", 1)
			cas := map[string]interface{}{"source": k.src, "budget": budget, "U64": "1<<63+5", "AnyF": 1e19, "real": o.String()}
			budgetErr := o.Err != nil && strings.Contains(o.Err.Error(), "memory budget exceeded")
			switch {
			case o.Panic != nil:
				c.Violate("run-panic", fmt.Sprint(o.Panic), cas)
			case k.mustRefuse && o.Err == nil:
				c.Violate("over-budget-run-completed:bound-outside-int", "a range that needs more than 2^63 elements completed: "+o.String(), cas)
			case k.empty && budgetErr:
				c.Violate("refused-below-budget:bound-outside-int", "a range whose end precedes its start was refused for budget reasons", cas)
			}
		}
	}
}

// c06DynamicBounds: a float beyond the int domain (or NaN) held by a member of
// interface type, which the checker lets through as a range bound.
func c06DynamicBounds(c *runner.Ctx) {
	save := vm.MemoryBudget
	defer func() { vm.MemoryBudget = save }()
	for _, budget := range []int{10, defaultBudget} {
		vm.MemoryBudget = budget
		for _, v := range []float64{1e19, math.Inf(1), -1e19, math.Inf(-1), math.NaN(), 9223372036854775808, -9223372036854775808, 9223372036854777856, -9223372036854777856} {
			for _, src := range []string{"0..AnyF", "AnyF..0", "len(A..AnyF)"} {
				c.Begin(fmt.Sprintf("dynamic bound: %s AnyF=%v budget=%d", src, v, budget))
				e := envs.New(&envs.Log{})
				envs.Fill(e, 3, runner.NewRng(5))
				e.AnyF, e.A = v, 2
				p, co := SafeCompile(src, expr.Env(envs.Env{}))
				c.Eval(1)
				if co.Failed() {
					c.Count("bound_cases_rejected", 1)
					continue
				}
				o := SafeRun(p, *e)
				c.Eval(1)
				c.Count("bound_cases", 1)
				upper := src != "AnyF..0" // AnyF is the upper bound
				huge := (v > 0) == upper && !math.IsNaN(v)
				cas := map[string]interface{}{"source": src, "budget": budget, "AnyF": fmt.Sprint(v), "real": o.String()}
				budgetErr := o.Err != nil && strings.Contains(o.Err.Error(), "memory budget exceeded")
				switch {
				case o.Panic != nil:
					c.Violate("run-panic", fmt.Sprint(o.Panic), cas)
				case huge && o.Err == nil:
					c.Violate("over-budget-run-completed:bound-outside-int", "a range that needs more than 2^63 elements completed: "+o.String(), cas)
				case !huge && budgetErr:
					c.Violate("refused-below-budget:bound-outside-int", "a range that creates nothing (its end precedes its start, or a bound is NaN) was refused for budget reasons", cas)
				}
			}
		}
	}
}

func c06Case(c *runner.Ctx, idx uint64) {
	if idx == 0 {
		c06Bounds(c)
		c06LiteralBoundary(c)
		c06DynamicBounds(c)
	}
	r := c.R
	g := term.NewGen(r, false)
	g.NoElvis = true
	sites := 1 + r.Intn(12)
	if idx%3 == 0 {
		sites = 1 + r.Intn(3)
	}
	var t *term.Term
	fromAlloc := true
	func() {
		defer func() {
			if rec := recover(); rec != nil {
				c.Inconclusive(fmt.Sprint(rec))
			}
		}()
		if idx%5 == 4 {
			// general terms of collection type as well
			fromAlloc = false
			t = g.Of([]reflect.Type{term.ArrT, term.IntsT, term.MapT, term.StrsT}[r.Intn(4)], 25)
		} else {
			t = allocTerm(g, sites)
		}
	}()
	if t == nil {
		return
	}
	src := term.Print(t, term.PrintOpts{})
	c.Begin(src)
	pair := c06Env(r)
	// unbounded reference run gives A
	pair.Reset(0)
	ru := ref.Eval(t, pair.Ref, 0)
	huge := strings.HasPrefix(ru.Unspec, "range too large")
	if (ru.Unspec != "" && !huge) || t.HasUnspec() {
		c.Count("unspecified", 1)
		return
	}
	A := ru.Alloc
	budgets := []int64{1, 2, 3, A - 1, A, A + 1, 2 * A, defaultBudget}
	if huge {
		// more elements than the reference is willing to build: every budget
		// up to the default one has to stop the run
		A = 1 << 40
		budgets = []int64{1, 3, 1000, defaultBudget}
		c.Count("huge_range_cases", 1)
	} else if ru.Fail != nil {
		// the unbounded evaluation fails for another reason: the budget still
		// has to agree with the reference on every prefix
		budgets = []int64{1, 3, A, A + 1, defaultBudget}
	}
	pNo, coNo := SafeCompile(src, expr.Env(envs.Env{}), expr.Optimize(false))
	pOpt, coOpt := SafeCompile(src, expr.Env(envs.Env{}))
	c.Eval(2)
	if coNo.Failed() {
		c.Violate("compile:"+errKeyOf(errOf(coNo)), "allocating expression rejected: "+coNo.String(), map[string]interface{}{"source": src})
		return
	}
	save := vm.MemoryBudget
	defer func() { vm.MemoryBudget = save }()
	seen := map[int64]bool{}
	for _, B := range budgets {
		if B < 1 || seen[B] {
			continue
		}
		seen[B] = true
		vm.MemoryBudget = int(B)
		pair.Reset(0)
		rr := ref.Eval(t, pair.Ref, B)
		if rr.Unspec != "" || rr.Tainted {
			// a nil from a nil-safe access reached an operator: not settled
			c.Count("unspecified_or_tainted", 1)
			continue
		}
		// black box + hook, unoptimized; every other case on a VM value that
		// lives as long as the worker (the budget is per run, not per VM)
		m := &vm.VM{}
		if idx%2 == 1 {
			m = c06VM
			c.Count("runs_on_long_lived_vm", 1)
		}
		tr := mon.NewTrace(pNo, nil)
		out, err, pan := mon.RunTraced(m, pNo, *pair.Real, tr)
		c.Eval(1)
		c.Count("alloc_events", int64(tr.Allocs))
		c.Count("alloc_requests", int64(tr.AllocReqs))
		if A > 0 {
			c.Distinct(fmt.Sprintf("%s|%d|%d|%d|%d", src, pair.Real.A, pair.Real.B, pair.Real.C, B))
		}
		cas := map[string]interface{}{"source": src, "budget": B, "reference_total_unbounded": A, "reference": refOutcome(rr),
			"real": Outcome{Val: out, Err: err, Panic: pan}.String(), "env": envBrief(pair.Real)}
		if pan != nil {
			c.Violate("run-panic", fmt.Sprint(pan), cas)
			continue
		}
		refBudget := rr.Fail != nil && rr.Fail.Class == ref.FailBudget
		realBudget := err != nil && strings.Contains(err.Error(), "memory budget exceeded")
		switch {
		case refBudget && err == nil:
			c.Violate("over-budget-run-completed", fmt.Sprintf("a run that has to create >= %d elements completed (reference total %d)", B, A), cas)
		case !refBudget && realBudget:
			c.Violate("refused-below-budget", fmt.Sprintf("a run creating fewer than %d elements was refused for budget reasons", B), cas)
		case refBudget && !realBudget && err != nil:
			// failed, but for another reason than the budget: the evaluation
			// went past the point where the budget had to stop it
			c.Violate("budget-not-the-failure", "run failed after exceeding the budget without a budget error: "+firstLine(err.Error()), cas)
		case rr.Fail == nil && err == nil && mon.Canon(out) != mon.Canon(rr.Value):
			c.Violate("value", "result differs from the reference under a budget", cas)
		case refBudget && realBudget:
			c.Count("budget_failures_agreed", 1)
		case rr.Fail == nil && err == nil:
			c.Count("successes_agreed", 1)
		}
		if len(tr.Errs) > 0 {
			c.Violate("hook:"+sigWords(tr.Errs[0]), "allocation accounting violated: "+strings.Join(tr.Errs, "; "), cas)
		}
		// hook oracle on the optimized program as well
		if !coOpt.Failed() && pOpt != nil {
			m2 := &vm.VM{}
			tr2 := mon.NewTrace(pOpt, nil)
			out2, err2, pan2 := mon.RunTraced(m2, pOpt, *pair.Real, tr2)
			c.Eval(1)
			c.Count("alloc_events", int64(tr2.Allocs))
			if pan2 != nil {
				c.Violate("run-panic", fmt.Sprint(pan2), cas)
			} else if fromAlloc {
				// every allocation of these terms is sized at run time: the
				// optimizer has nothing to build ahead, and the optimized
				// program owes the same verdicts
				cas2 := map[string]interface{}{"source": src, "budget": B, "reference_total_unbounded": A, "reference": refOutcome(rr), "options": "optimize",
					"real": Outcome{Val: out2, Err: err2}.String(), "env": envBrief(pair.Real)}
				realBudget2 := err2 != nil && strings.Contains(err2.Error(), "memory budget exceeded")
				switch {
				case refBudget && err2 == nil:
					c.Violate("over-budget-run-completed:optimized", fmt.Sprintf("an optimized run that has to create >= %d elements completed (reference total %d)", B, A), cas2)
				case !refBudget && realBudget2:
					c.Violate("refused-below-budget:optimized", fmt.Sprintf("an optimized run creating fewer than %d elements was refused for budget reasons", B), cas2)
				case rr.Fail == nil && err2 == nil && mon.Canon(out2) != mon.Canon(rr.Value):
					c.Violate("value:optimized", "result of the optimized program differs from the reference under a budget", cas2)
				default:
					c.Count("optimized_runs_judged", 1)
				}
			}
			if len(tr2.Errs) > 0 {
				c.Violate("hook-optimized:"+sigWords(tr2.Errs[0]), "allocation accounting violated (optimized program): "+strings.Join(tr2.Errs, "; "), cas)
			}
		}
	}
	if c.WantSample() {
		c.Sample(map[string]interface{}{"source": src, "reference_total": A, "A": pair.Real.A, "B": pair.Real.B, "C": pair.Real.C})
	}
}

func errOf(o Outcome) error {
	if o.Err != nil {
		return o.Err
	}
	return fmt.Errorf("panic: %v", o.Panic)
}

// c06LiteralBoundary: literal ranges of exactly the default budget and one
// more element, compiled with and without the optimizer (a range folded into
// a constant at compile time is not charged at run time, so the fold must
// stop below the budget).
func c06LiteralBoundary(c *runner.Ctx) {
	save := vm.MemoryBudget
	defer func() { vm.MemoryBudget = save }()
	vm.MemoryBudget = defaultBudget
	for _, src := range []string{"len(1..1000000)", "len(0..999999)", "len(1..1000001)", "len(-5..999994)", "[len(1..1000000)][0]"} {
		for _, opt := range []bool{true, false} {
			c.Begin(fmt.Sprintf("literal-boundary: %s optimize=%v", src, opt))
			p, co := SafeCompile(src, expr.Optimize(opt))
			c.Eval(1)
			if co.Failed() {
				c.Count("bound_cases_rejected", 1)
				continue
			}
			o := SafeRun(p, nil)
			c.Eval(1)
			c.Count("literal_boundary_cases", 1)
			cas := map[string]interface{}{"source": src, "budget": defaultBudget, "optimize": opt, "real": o.String()}
			if o.Panic != nil {
				c.Violate("run-panic", fmt.Sprint(o.Panic), cas)
			} else if o.Err == nil {
				c.Violate("over-budget-run-completed:literal-range-at-default-budget", "a literal range of at least the default budget completed: "+o.String(), cas)
			}
		}
	}
}
