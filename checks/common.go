// Package checks wires generators, executions of the real library and
// oracles together, one file per property.
package checks

import (
	"fmt"
	"reflect"
	"strings"

	"github.com/antonmedv/expr"
	"github.com/antonmedv/expr/vm"

	"verif/internal/envs"
	"verif/internal/mon"
	"verif/internal/ref"
	"verif/internal/runner"
	"verif/internal/term"
)

// Outcome of one compile or run of the real library.
type Outcome struct {
	Val   interface{}
	Err   error
	Panic interface{} // a panic that escaped the library call
}

func (o Outcome) Failed() bool { return o.Err != nil || o.Panic != nil }

func (o Outcome) String() string {
	switch {
	case o.Panic != nil:
		return fmt.Sprintf("PANIC(%v)", o.Panic)
	case o.Err != nil:
		return "error(" + firstLine(o.Err.Error()) + ")"
	}
	return mon.Short(o.Val)
}

func firstLine(s string) string {
	if i := strings.IndexByte(s, '\n'); i >= 0 {
		s = s[:i]
	}
	if len(s) > 200 {
		s = s[:200] + "…"
	}
	return s
}

// SafeCompile calls expr.Compile under recover.
func SafeCompile(src string, opts ...expr.Option) (p *vm.Program, o Outcome) {
	defer func() {
		if r := recover(); r != nil {
			o.Panic = r
			p = nil
		}
	}()
	runner.LibEnter()
	defer runner.LibLeave()
	p, o.Err = expr.Compile(src, opts...)
	return
}

// SafeRun calls expr.Run under recover.
func SafeRun(p *vm.Program, env interface{}) (o Outcome) {
	defer func() {
		if r := recover(); r != nil {
			o.Panic = r
		}
	}()
	runner.LibEnter()
	defer runner.LibLeave()
	o.Val, o.Err = expr.Run(p, env)
	return
}

// SafeEval calls expr.Eval under recover.
func SafeEval(src string, env interface{}) (o Outcome) {
	defer func() {
		if r := recover(); r != nil {
			o.Panic = r
		}
	}()
	runner.LibEnter()
	defer runner.LibLeave()
	o.Val, o.Err = expr.Eval(src, env)
	return
}

// Error classes of run-time failures. Value reasons are what a well-typed
// program may legitimately fail with; type reasons are what static typing is
// meant to exclude (C03).
const (
	ClsBudget  = "budget"
	ClsDivZero = "divzero"
	ClsIndex   = "index"
	ClsNil     = "nil"
	ClsRegexp  = "regexp"
	ClsMember  = "member-panic"
	ClsType    = "type"
	ClsUnknown = "unknown"
)

func ClassifyRunErr(err error) string {
	if err == nil {
		return ""
	}
	m := err.Error()
	has := func(s string) bool { return strings.Contains(m, s) }
	switch {
	case has("memory budget exceeded"):
		return ClsBudget
	case has("integer divide by zero"):
		return ClsDivZero
	case has("injected panic"):
		return ClsMember
	case has("error parsing regexp"):
		return ClsRegexp
	case has("index out of range"), has("slice index out of"), has("slice bounds out of"), has("out of bounds"):
		return ClsIndex
	case has("<nil>"), has("Call using interface {} as type"), has("cannot use interface {} as type"), has("is nil, not"), has("nil pointer"), has("using nil *"), has("from <nil>"), has("on zero Value"), has("of <nil>"), has("(type <nil>)"):
		return ClsNil
	case has("cannot slice"):
		// slice() reports this for a nil operand (the result of a nil-safe
		// access); statically typed operands are never of another kind
		return ClsNil
	case has("cannot fetch") && has("from *"):
		// fetch through a nil pointer ends here; fetch from a non-nil pointer to
		// a non-struct does too, which never happens with this environment.
		return ClsNil
	case has("interface conversion"), has("invalid operation"), has("reflect: Call using"), has("reflect.Value.Call"),
		has("not assignable"), has("cannot fetch"), has("cannot get"), has("invalid argument for len"), has(`operator "in"`),
		has("cannot use"), has("cannot slice"), has("reflect:"), has("reflect.Value"), has("reflect.Set"):
		return ClsType
	}
	return ClsUnknown
}

// EnvPair is a real environment and an identical one for the reference,
// with separate call logs.
type EnvPair struct {
	Real, Ref       *envs.Env
	RealLog, RefLog *envs.Log
	Style           int
}

func NewEnvPair(style int, seed uint64) *EnvPair {
	p := &EnvPair{RealLog: &envs.Log{}, RefLog: &envs.Log{}, Style: style}
	p.Real = envs.New(p.RealLog)
	p.Ref = envs.New(p.RefLog)
	envs.Fill(p.Real, style, runner.NewRng(seed))
	envs.Fill(p.Ref, style, runner.NewRng(seed))
	return p
}

func (p *EnvPair) Reset(panicAt int) {
	p.RealLog.Reset()
	p.RefLog.Reset()
	p.RealLog.PanicAt = panicAt
	p.RefLog.PanicAt = panicAt
}

// StyleOf maps a small index to an environment style and seed.
func EnvStyles(r *runner.Rng, k int) (styles []int, seeds []uint64) {
	for i := 0; i < k; i++ {
		st := i
		if i >= 3 {
			st = 3
		}
		styles = append(styles, st)
		seeds = append(seeds, r.U64())
	}
	return
}

// shape gives a short structural signature of a term (depth 2).
func shape(t *term.Term) string {
	if t == nil {
		return "_"
	}
	var sb strings.Builder
	sb.WriteString(t.K.String())
	if t.Op != "" && t.K != term.KIdent {
		sb.WriteString("(" + t.Op + ")")
	}
	if len(t.Sub) > 0 {
		sb.WriteByte('[')
		for i, s := range t.Sub {
			if i > 0 {
				sb.WriteByte(',')
			}
			if s == nil {
				sb.WriteByte('_')
				continue
			}
			sb.WriteString(s.K.String())
			if s.T != nil {
				sb.WriteString(":" + typeName(s.T))
			}
		}
		sb.WriteByte(']')
	}
	return sb.String()
}

func typeName(t reflect.Type) string {
	if t == nil {
		return "nil"
	}
	if t == term.NilT {
		return "nil"
	}
	s := t.String()
	s = strings.ReplaceAll(s, "envs.", "")
	s = strings.ReplaceAll(s, "interface {}", "any")
	return s
}

// closedSubterms returns the sub-terms of t that do not use # of an enclosing
// closure (so they can be evaluated alone), children before parents.
func closedSubterms(t *term.Term) []*term.Term {
	var out []*term.Term
	var rec func(x *term.Term)
	rec = func(x *term.Term) {
		if x == nil {
			return
		}
		for _, s := range x.Sub {
			rec(s)
		}
		if freeDepth(x, 0) == 0 {
			out = append(out, x)
		}
	}
	rec(t)
	return out
}

// freeDepth returns 1 if x has a # not bound inside x.
func freeDepth(x *term.Term, bound int) int {
	if x == nil {
		return 0
	}
	if x.K == term.KPointer {
		if bound == 0 {
			return 1
		}
		return 0
	}
	for i, s := range x.Sub {
		b := bound
		if x.K == term.KBuiltin && i == 1 {
			b = bound + 1
		}
		if freeDepth(s, b) > 0 {
			return 1
		}
	}
	return 0
}

func refOutcome(r ref.Result) string {
	switch {
	case r.Unspec != "":
		return "unspecified(" + r.Unspec + ")"
	case r.Fail != nil:
		return "fail(" + r.Fail.Error() + ")"
	}
	return mon.Short(r.Value)
}
