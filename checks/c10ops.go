package checks

import (
	"fmt"
	"strings"

	"github.com/antonmedv/expr"
	"github.com/antonmedv/expr/ast"

	"verif/internal/mon"
	"verif/internal/runner"
	"verif/internal/term"
)

// User patches together with operator overloading (C10: "a replacement made
// by the visitor takes effect in the tree that is then checked and compiled";
// "user patches, operator overloading and optimizations apply to a
// sub-expression wherever it occurs"). The source contains names the
// environment does not declare; the visitor replaces them - in Enter or in
// Exit - by declared identifiers or by an overloaded operator expression. The
// result must equal the program compiled from the text with the replacements
// written out.

type c10OpPatcher struct {
	inEnter bool
	n       int
}

func (p *c10OpPatcher) replace(n *ast.Node) {
	id, ok := (*n).(*ast.IdentifierNode)
	if !ok {
		return
	}
	switch id.Value {
	case "undeclB":
		ast.Patch(n, &ast.IdentifierNode{Value: "B"})
	case "undeclM1":
		ast.Patch(n, &ast.IdentifierNode{Value: "M1"})
	case "sumM":
		// a node with children: when this happens in Enter, the walk has to go
		// on into the replacement, where undeclM1 is waiting to be replaced
		left := "M1"
		if p.inEnter {
			left = "undeclM1"
		}
		ast.Patch(n, &ast.BinaryNode{Operator: "+", Left: &ast.IdentifierNode{Value: left}, Right: &ast.IdentifierNode{Value: "M2"}})
	default:
		return
	}
	p.n++
}

func (p *c10OpPatcher) Enter(n *ast.Node) {
	if p.inEnter {
		p.replace(n)
	}
}

func (p *c10OpPatcher) Exit(n *ast.Node) {
	if !p.inEnter {
		p.replace(n)
	}
}

// renameIdent returns a copy of t with identifier from renamed (raw copy).
func renameIdent(t *term.Term, from, to string, expand func() *term.Term) (*term.Term, int) {
	if t == nil {
		return nil, 0
	}
	if t.K == term.KIdent && t.Op == from {
		if expand != nil {
			return expand(), 1
		}
		cp := *t
		cp.Op = to
		return &cp, 1
	}
	cp := *t
	cp.Sub = make([]*term.Term, len(t.Sub))
	n := 0
	for i, s := range t.Sub {
		var k int
		cp.Sub[i], k = renameIdent(s, from, to, expand)
		n += k
	}
	return &cp, n
}

// c10Retyper replaces declared identifiers by declared identifiers of another
// type: whether an operator above them is overloaded changes with the patch.
type c10Retyper struct{ n int }

func (p *c10Retyper) Enter(*ast.Node) {}
func (p *c10Retyper) Exit(n *ast.Node) {
	if id, ok := (*n).(*ast.IdentifierNode); ok {
		switch id.Value {
		case "M1":
			ast.Patch(n, &ast.IdentifierNode{Value: "A"})
			p.n++
		case "M2":
			ast.Patch(n, &ast.IdentifierNode{Value: "B"})
			p.n++
		}
	}
}

func c10PatchOperators(c *runner.Ctx, idx uint64) {
	r := c.R
	tbi := int(idx % uint64(len(c17Tables)))
	g := &c17Gen{r: r, tb: c17Tables[tbi], positions: map[string]bool{}}
	t := g.top(4 + r.Intn(24))
	plain := term.Print(t, term.PrintOpts{})
	c.Begin(plain)
	// what the visitor will be asked to repair
	patched, nB := renameIdent(t, "B", "undeclB", nil)
	patched, nM := renameIdent(patched, "M2", "sumM", nil)
	if nB+nM == 0 {
		c.Count("patch_operator_no_site", 1)
		return
	}
	patchedSrc := term.Print(patched, term.PrintOpts{})
	// the same with the replacements written out: M2 -> (M1 + M2)
	expected, _ := renameIdent(t, "M2", "", func() *term.Term {
		return &term.Term{K: term.KBinary, Op: "+", Sub: []*term.Term{{K: term.KIdent, Op: "M1"}, {K: term.KIdent, Op: "M2"}}}
	})
	expectedSrc := term.Print(expected, term.PrintOpts{Full: true})
	sample := newOpEnv(runner.NewRng(1))
	// a patch that changes operand types: M1, M2 (Money) become A, B (int)
	if ret, k1 := renameIdent(t, "M1", "A", nil); true {
		ret, k2 := renameIdent(ret, "M2", "B", nil)
		if k1+k2 > 0 {
			retSrc := term.Print(ret, term.PrintOpts{})
			opts := append([]expr.Option{expr.Env(*sample)}, g.tb.options()...)
			p2, co2 := SafeCompile(retSrc, opts...)
			p1, co1 := SafeCompile(plain, append(opts, expr.Patch(&c10Retyper{}))...)
			c.Eval(2)
			cas := map[string]interface{}{"source_given_to_compile": plain, "replacements": "M1 -> A, M2 -> B (made in Exit)", "equivalent_source": retSrc, "table": fmt.Sprint(map[string][]string(g.tb)),
				"patched_compile": co1.String(), "equivalent_compile": co2.String()}
			switch {
			case co1.Panic != nil || co2.Panic != nil:
				c.Violate("patch-operators-compile-panic", fmt.Sprint(co1.Panic, co2.Panic), cas)
			case co2.Err != nil:
				c.Count("patch_operator_equivalent_rejected", 1)
			case co1.Err != nil:
				c.Violate("patch-operators-rejected:retyping:"+errKeyOf(co1.Err), "a tree whose operand types the visitor changed is rejected although the equivalent source compiles: "+firstLine(co1.Err.Error()), cas)
			default:
				seed := r.U64()
				e1, e2 := newOpEnv(runner.NewRng(seed)), newOpEnv(runner.NewRng(seed))
				o1, o2 := SafeRun(p1, *e1), SafeRun(p2, *e2)
				c.Eval(2)
				c.Count("patch_operator_runs_compared", 1)
				l1, l2 := strings.Join(e1.log.Calls, ";"), strings.Join(e2.log.Calls, ";")
				if o1.Panic != nil || o2.Panic != nil || o1.Failed() != o2.Failed() || l1 != l2 || (!o1.Failed() && mon.Canon(o1.Val) != mon.Canon(o2.Val)) {
					cas["patched_result"], cas["equivalent_result"], cas["patched_calls"], cas["equivalent_calls"] = o1.String(), o2.String(), l1, l2
					c.Violate("patch-operators-effect:retyping", fmt.Sprintf("the patched tree gives %s [%s], the equivalent source %s [%s]", o1, l1, o2, l2), cas)
				}
			}
		}
	}
	for _, inEnter := range []bool{false, true} {
		opts := append([]expr.Option{expr.Env(*sample)}, g.tb.options()...)
		p2, co2 := SafeCompile(expectedSrc, opts...)
		vis := &c10OpPatcher{inEnter: inEnter}
		p1, co1 := SafeCompile(patchedSrc, append(opts, expr.Patch(vis))...)
		c.Eval(2)
		where := "Exit"
		if inEnter {
			where = "Enter"
		}
		cas := map[string]interface{}{"source_given_to_compile": patchedSrc, "replacements": "undeclB -> B, sumM -> M1 + M2 (made in " + where + ")", "equivalent_source": expectedSrc,
			"table": fmt.Sprint(map[string][]string(g.tb)), "patched_compile": co1.String(), "equivalent_compile": co2.String()}
		if co1.Panic != nil || co2.Panic != nil {
			c.Violate("patch-operators-compile-panic", fmt.Sprint(co1.Panic, co2.Panic), cas)
			continue
		}
		if co2.Err != nil {
			// M1 + M2 is not defined under this table: nothing to compare
			c.Count("patch_operator_equivalent_rejected", 1)
			continue
		}
		if co1.Err != nil {
			c.Violate("patch-operators-rejected:"+where+":"+errKeyOf(co1.Err), "a tree repaired by the visitor is rejected although the equivalent source compiles: "+firstLine(co1.Err.Error()), cas)
			continue
		}
		c.Distinct(patchedSrc + "|" + where)
		for k := 0; k < 2; k++ {
			seed := r.U64()
			e1, e2 := newOpEnv(runner.NewRng(seed)), newOpEnv(runner.NewRng(seed))
			o1, o2 := SafeRun(p1, *e1), SafeRun(p2, *e2)
			c.Eval(2)
			c.Count("patch_operator_runs_compared", 1)
			l1, l2 := strings.Join(e1.log.Calls, ";"), strings.Join(e2.log.Calls, ";")
			same := o1.Panic == nil && o2.Panic == nil && o1.Failed() == o2.Failed() && l1 == l2
			if same && !o1.Failed() {
				same = mon.Canon(o1.Val) == mon.Canon(o2.Val)
			}
			if !same {
				cas["patched_result"], cas["equivalent_result"], cas["patched_calls"], cas["equivalent_calls"] = o1.String(), o2.String(), l1, l2
				c.Violate("patch-operators-effect:"+where, fmt.Sprintf("the patched tree gives %s [%s], the equivalent source %s [%s]", o1, l1, o2, l2), cas)
				break
			}
		}
	}
}
