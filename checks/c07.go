package checks

import (
	"fmt"
	"reflect"
	"strings"

	"github.com/antonmedv/expr"
	"github.com/antonmedv/expr/vm"

	"verif/internal/envs"
	"verif/internal/mon"
	"verif/internal/runner"
	"verif/internal/term"
)

// C07: a reused VM behaves like a fresh one.
// Differential per step of a history: the long-lived VM must return what a
// fresh VM returns for the same (program, environment). Hook invariant: at
// every run-begin the machine state equals a fresh VM's.

var c07Templates = []string{
	// succeed
	`A + B`, `S + T`, `len(Ints)`, `P or Q`, `It.ID`,
	// allocate
	`len(1..N)`, `map(1..N, {# * 2})`, `[A, B, C, N]`, `{"a": A, "b": [N, N]}`, `filter(1..N, {# % 2 == 0})`,
	`len(map(1..N, {[#, #]}))`, `count(1..N, {len(1..#) > 2})`,
	// fail inside nested loops (scopes and stack garbage left behind)
	`all(Ints, {any(Ints2, {# / Z > 0})})`,
	`map(1..3, {map(1..3, {count(1..3, {# / Z == 1})})})`,
	`filter(Items, {.Next.ID > 0})`,
	`any(PItems, {.Name == "zz"})`,
	`map(Ints, {[#, # / (# - 1)]})`,
	`one(1..N, {FnI(#) > 10})`, `map(1..3, {AddA(#)})`, `FnEnv(A) + AddA(B)`, `AddA(1)`, `FnEnv(2) * 2`, `count(Ints, {AddA(#) > FnEnv(#)})`,
	`map(1..N, {Inc(#)})`,
	`len(Ints[1/Z:])`,
	`[1..N, 1..N, 1..N, 1..N]`,
	`NilIt.Name`,
	`S matches BadRe`,
	// results that keep hold of what the VM handed to an environment function
	`Tuple(A, B, N)`, `Tuple(N)`, `[Tuple(1, 2), Tuple(A)]`, `Tuple(Tuple(A, 2), B, S)`, `map(1..3, {Tuple(#, A)})`, `Fast(A, B)`, `FnVar(A, B, N)`,
	// folded sequences that an environment function changes in place
	`RevInts((1..6)[2:])`, `RevInts([7, 8, 9, 10][:])`, `RevInts(1..5)[0]`, `RevInts((1..9)[:4])[A % 2]`,
}

type c07Kept struct {
	step  int
	src   string
	val   interface{}
	canon string
}

type c07Prog struct {
	src  string
	prog *vm.Program
}

func init() {
	runner.Register(&runner.Check{
		ID:    "C07",
		Level: "exploration",
		Rule: "case = one history of 2-400 runs on a single vm.VM value over a pool of 1-6 programs (succeeding, allocating, failing inside 1-3 nested loops, failing at the k-th environment call, random typed terms) under budgets 20-10^4, every step compared with a fresh VM and with the begin-state invariant; exhaustive orderings for pools <= 4 and length <= 4; " +
			"distinct = distinct (history seed, budget, pool) with at least one failing and one succeeding run or a cumulative allocation above the budget",
		Assumptions: []string{
			"a fresh VM is vm.Run (a new vm.VM{} per call)",
			"the debug VM (vm.Debug) is not covered",
		},
		Phases: []runner.Phase{
			{
				Name: "history",
				N: func(tier string) uint64 {
					if tier == "thorough" {
						return 90000
					}
					return 2400
				},
				Run: c07History,
			},
		},
		Post: func(a *runner.Aggregate) []string {
			var out []string
			if a.Counters["begin_events"] == 0 {
				out = append(out, "no run-begin event observed")
			}
			if a.Counters["reused_runs_failed"] == 0 || a.Counters["reused_runs_ok"] == 0 {
				out = append(out, "histories did not mix failing and succeeding runs")
			}
			if a.Counters["budget_crossings"] == 0 {
				out = append(out, "cumulative allocation never crossed the budget")
			}
			return out
		},
	})
}

func c07History(c *runner.Ctx, idx uint64) {
	r := c.R
	// pool
	poolN := 1 + r.Intn(6)
	var pool []c07Prog
	optimize := r.Bool()
	for len(pool) < poolN {
		var src string
		if r.Chance(1, 4) {
			g := term.NewGen(r, r.Bool())
			func() {
				defer func() { recover() }()
				src = term.Print(g.Top(5+r.Intn(30)), term.PrintOpts{})
			}()
			if src == "" {
				continue
			}
		} else {
			src = strings.ReplaceAll(c07Templates[r.Intn(len(c07Templates))], "N", r.Pick([]string{"A", "B", "C"}))
		}
		opts := []expr.Option{expr.Env(envs.Env{})}
		if !optimize {
			opts = append(opts, expr.Optimize(false))
		}
		p, co := SafeCompile(src, opts...)
		c.Eval(1)
		if co.Failed() || p == nil {
			continue
		}
		pool = append(pool, c07Prog{src, p})
	}
	budget := []int{20, 50, 100, 300, 1000, 10000}[r.Intn(6)]
	save := vm.MemoryBudget
	vm.MemoryBudget = budget
	defer func() { vm.MemoryBudget = save }()

	// environments
	log := &envs.Log{}
	var es []*envs.Env
	for i := 0; i < 3; i++ {
		e := envs.New(log)
		envs.Fill(e, 3, runner.NewRng(r.U64()))
		e.A, e.B, e.C = 1+r.Intn(12), 3+r.Intn(30), r.Intn(budget+5)
		es = append(es, e)
	}

	// history: exhaustive orderings for small pools, random otherwise
	var steps []int
	length := 2 + r.Intn(40)
	if r.Chance(1, 8) {
		length = 100 + r.Intn(300)
	}
	if poolN <= 4 && idx%4 == 0 {
		// all sequences of length L over the pool, concatenated
		L := 2 + r.Intn(3)
		total := 1
		for i := 0; i < L; i++ {
			total *= poolN
		}
		for code := 0; code < total; code++ {
			x := code
			for i := 0; i < L; i++ {
				steps = append(steps, x%poolN)
				x /= poolN
			}
		}
		c.Count("exhaustive_order_histories", 1)
	} else {
		for i := 0; i < length; i++ {
			steps = append(steps, r.Intn(poolN))
		}
	}
	c.Begin(fmt.Sprintf("history pool=%d steps=%d budget=%d", poolN, len(steps), budget))

	reused := &vm.VM{}
	tr := mon.NewTrace(nil, nil)
	reused.SetVerifHook(func(e *vm.VerifEvent) {
		if e.Kind == vm.VerifBegin || e.Kind == vm.VerifAlloc {
			tr.Program = e.Program
			tr.Hook(e)
		}
	})
	okRuns, failRuns := 0, 0
	cumAlloc := 0
	var kept []c07Kept
	var hist []string
	// one history in three changes the configured budget between its runs: a
	// fresh VM reads it at every run, and so must a reused one
	altBudget := 0
	if r.Chance(1, 3) {
		altBudget = []int{20, 50, 100, 300, 1000, 10000, 1000000}[r.Intn(7)]
		c.Count("histories_with_budget_changes", 1)
	}
	for si, pi := range steps {
		pr := pool[pi]
		e := es[r.Intn(len(es))]
		if altBudget != 0 && r.Chance(1, 4) {
			if vm.MemoryBudget == budget {
				vm.MemoryBudget = altBudget
			} else {
				vm.MemoryBudget = budget
			}
			c.Count("budget_changes_inside_histories", 1)
		}
		panicAt := 0
		if r.Chance(1, 6) {
			panicAt = 1 + r.Intn(4)
		}
		// reused VM
		log.Reset()
		log.PanicAt = panicAt
		tr.AllocSum = 0
		tr.Errs = tr.Errs[:0]
		o1 := safeVMRun(reused, pr.prog, *e)
		calls1 := log.String()
		cumAlloc += tr.AllocSum
		// fresh VM
		log.Reset()
		log.PanicAt = panicAt
		o2 := SafeRun(pr.prog, *e)
		calls2 := log.String()
		c.Eval(2)
		c.Count("history_steps", 1)
		if o1.Failed() {
			failRuns++
			c.Count("reused_runs_failed", 1)
		} else {
			okRuns++
			c.Count("reused_runs_ok", 1)
		}
		if len(hist) < 40 {
			hist = append(hist, fmt.Sprintf("%d:%s", pi, outcomeKey(o1)))
		}
		// a value returned by an earlier run stays what it was, whatever the
		// VM does afterwards
		for _, k := range kept {
			if now := mon.Canon(k.val); now != k.canon {
				c.Violate("earlier-result-modified", fmt.Sprintf("the result of step %d (%s) read %s when it was returned and reads %s after step %d", k.step, clip(k.src, 80), clip(k.canon, 200), clip(now, 200), si),
					map[string]interface{}{"programs": poolSources(pool), "step": si, "earlier_step": k.step, "program": pr.src, "earlier_program": k.src, "budget": budget, "history_prefix": hist, "optimize": optimize})
				kept = nil
				break
			}
		}
		if !o1.Failed() && o1.Val != nil && len(kept) < 8 {
			switch reflect.TypeOf(o1.Val).Kind() {
			case reflect.Slice, reflect.Map, reflect.Ptr:
				kept = append(kept, c07Kept{si, pr.src, o1.Val, mon.Canon(o1.Val)})
				c.Count("results_kept_and_rechecked", 1)
			}
		}
		same := o1.Failed() == o2.Failed() && calls1 == calls2
		if same && !o1.Failed() {
			same = mon.Canon(o1.Val) == mon.Canon(o2.Val)
		}
		if same && o1.Err != nil && o2.Err != nil {
			same = o1.Err.Error() == o2.Err.Error()
		}
		if o1.Panic != nil || o2.Panic != nil {
			same = false
		}
		if !same {
			c.Violate("differs-from-fresh:"+outcomeKey(o1)+"/"+outcomeKey(o2),
				fmt.Sprintf("step %d on a reused VM returned %s, a fresh VM returns %s", si, o1, o2),
				map[string]interface{}{"programs": poolSources(pool), "step": si, "program": pr.src, "budget": budget, "budget_at_step": vm.MemoryBudget, "history_prefix": hist,
					"reused": o1.String(), "fresh": o2.String(), "reused_calls": calls1, "fresh_calls": calls2, "optimize": optimize})
			break
		}
		if len(tr.BeginBad) > 0 {
			c.Violate("begin-state:"+sigWords(tr.BeginBad[0]), "reused VM starts a run in a state a fresh VM never has: "+tr.BeginBad[0],
				map[string]interface{}{"programs": poolSources(pool), "step": si, "program": pr.src, "budget": budget, "history_prefix": hist, "optimize": optimize})
			break
		}
	}
	c.Count("begin_events", int64(tr.Begins))
	c.Count("budget_crossings", int64(cumAlloc/budget))
	if (okRuns > 0 && failRuns > 0) || cumAlloc > budget {
		c.Distinct(fmt.Sprintf("%d|%d|%d|%v", idx, c.Seed, budget, poolSources(pool)))
	}
	if c.WantSample() {
		c.Sample(map[string]interface{}{"programs": poolSources(pool), "budget": budget, "steps": len(steps), "history_prefix": hist, "cumulative_allocation": cumAlloc})
	}
}

func poolSources(pool []c07Prog) []string {
	var out []string
	for _, p := range pool {
		out = append(out, clip(p.src, 200))
	}
	return out
}

func outcomeKey(o Outcome) string {
	switch {
	case o.Panic != nil:
		return "panic"
	case o.Err != nil:
		return "err(" + errKeyOf(o.Err) + ")"
	}
	return "ok"
}

func safeVMRun(m *vm.VM, p *vm.Program, env interface{}) (o Outcome) {
	defer func() {
		if r := recover(); r != nil {
			o.Panic = r
		}
	}()
	runner.LibEnter()
	defer runner.LibLeave()
	o.Val, o.Err = m.Run(p, env)
	return
}
