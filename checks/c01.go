package checks

import (
	"fmt"
	"regexp"
	"strings"

	"github.com/antonmedv/expr"

	"verif/internal/envs"
	"verif/internal/mon"
	"verif/internal/ref"
	"verif/internal/runner"
	"verif/internal/term"
)

// C01: compiled evaluation conforms to the language definition.
// History + executable model: the real library and the reference evaluator run
// the same term on identical environments; values (canon, numeric kind
// included), failure, and the call logs of the environment functions must
// agree.

const defaultBudget = 1000000

type evalJudge struct {
	c        *runner.Ctx
	prop     string
	optNames []string
	opts     [][]expr.Option
}

func newEvalJudge(c *runner.Ctx) *evalJudge {
	return &evalJudge{
		c:        c,
		optNames: []string{"optimize", "no-optimize"},
		opts: [][]expr.Option{
			{expr.Env(envs.Env{})},
			{expr.Env(envs.Env{}), expr.Optimize(false)},
		},
	}
}

// judge compiles t under both optimizer settings and compares every run with
// the reference on the given environment (style, seed) list. injectK > 0 also
// replays with the k-th environment call panicking for k = 1..injectK.
func (j *evalJudge) judge(t *term.Term, styles []int, seeds []uint64, inject int) {
	c := j.c
	src := term.Print(t, term.PrintOpts{})
	c.Begin(src)
	unspecTerm := t.HasUnspec()
	nontrivial := t.Size() >= 2
	for oi, opts := range j.opts {
		prog, co := SafeCompile(src, opts...)
		c.Eval(1)
		if co.Panic != nil {
			c.Violate("compile-panic:"+firstLine(fmt.Sprint(co.Panic)), "Compile panicked", map[string]interface{}{"source": src, "options": j.optNames[oi], "panic": fmt.Sprint(co.Panic)})
			continue
		}
		for ei := range styles {
			pair := NewEnvPair(styles[ei], seeds[ei])
			maxInject := 0
			for k := 0; k <= maxInject; k++ {
				pair.Reset(k)
				rr := ref.Eval(t, pair.Ref, defaultBudget)
				if k == 0 && inject > 0 && rr.Unspec == "" {
					maxInject = len(pair.RefLog.Calls)
					if maxInject > inject {
						maxInject = inject
					}
				}
				c.Count("ref_evals", 1)
				if rr.Unspec != "" || unspecTerm {
					c.Count("unspecified_not_judged", 1)
					if co.Err == nil {
						ro := SafeRun(prog, *pair.Real)
						c.Eval(1)
						if ro.Panic != nil {
							c.Violate("run-panic:"+firstLine(fmt.Sprint(ro.Panic)), "Run panicked", j.caseOf(t, src, oi, pair, k, rr, ro))
						}
					}
					continue
				}
				if co.Err != nil {
					// The optimizer may reject a constant integer division or
					// modulo by zero at compile time (C02 states this allowance).
					if oi == 0 && t.HasConstDivZero() && strings.Contains(co.Err.Error(), "integer divide by zero") {
						c.Count("compile_error_const_div_zero", 1)
						break
					}
					c.Violate("compile-rejected:"+errKeyOf(co.Err), "Compile rejected a well-formed, reference-well-typed expression: "+firstLine(co.Err.Error()),
						j.caseOf(t, src, oi, pair, k, rr, Outcome{Err: co.Err}))
					break
				}
				ro := SafeRun(prog, *pair.Real)
				c.Eval(1)
				if k > 0 {
					c.Count("injected_panic_runs", 1)
				}
				if nontrivial {
					c.Distinct(src + "|" + fmt.Sprint(styles[ei], seeds[ei], k))
				}
				verdict := ""
				switch {
				case ro.Panic != nil:
					verdict = "run-panic"
				case rr.Fail != nil && !ro.Failed():
					verdict = "should-fail(" + rr.Fail.Class + ")"
				case rr.Fail == nil && ro.Failed():
					verdict = "should-succeed"
				case rr.Fail == nil && mon.Canon(rr.Value) != mon.Canon(ro.Val):
					verdict = "value"
				case pair.RealLog.String() != pair.RefLog.String():
					verdict = "call-log"
				}
				if rr.Fail != nil {
					c.Count("ref_fail_"+rr.Fail.Class, 1)
				} else {
					c.Count("ref_ok", 1)
				}
				if len(pair.RefLog.Calls) > 0 {
					c.Count("runs_with_calls", 1)
					c.Count("calls_logged", int64(len(pair.RefLog.Calls)))
				}
				if verdict == "" {
					continue
				}
				if rr.Tainted && ro.Panic == nil {
					c.Count("nilsafe_tainted_disagreement_not_judged", 1)
					continue
				}
				if t.HasElvis() && ro.Panic == nil {
					// recorded finding: the condition of `a ?: b` is evaluated
					// twice. Recognised only when the run agrees in every
					// respect with the reference under exactly that deviation.
					p2 := NewEnvPair(styles[ei], seeds[ei])
					p2.Reset(k)
					r2 := ref.EvalElvisTwice(t, p2.Ref, defaultBudget)
					if r2.Unspec == "" && (r2.Fail != nil) == ro.Failed() && (r2.Fail != nil || mon.Canon(r2.Value) == mon.Canon(ro.Val)) && p2.RefLog.String() == pair.RealLog.String() {
						c.Violate("elvis-condition-evaluated-twice", fmt.Sprintf("%s: real=%s ref=%s; the run equals the reference with the condition of ?: evaluated twice", verdict, ro, refOutcome(rr)), j.caseOf(t, src, oi, pair, k, rr, ro))
						continue
					}
				}
				// localise: smallest closed sub-term that already disagrees
				culprit := t
				for _, s := range closedSubterms(t) {
					if s == t {
						break
					}
					if j.disagrees(s, oi, styles[ei], seeds[ei], k) {
						culprit = s
						break
					}
				}
				cas := j.caseOf(t, src, oi, pair, k, rr, ro)
				cas["culprit"] = term.Print(culprit, term.PrintOpts{})
				c.Violate(verdict+":"+opOf(culprit)+":"+errKey(ro), fmt.Sprintf("%s: real=%s ref=%s", verdict, ro, refOutcome(rr)), cas)
			}
		}
	}
	if c.WantSample() {
		c.Sample(map[string]interface{}{"source": src, "static_type": typeName(t.T), "nodes": t.Size()})
	}
}

func (j *evalJudge) caseOf(t *term.Term, src string, oi int, pair *EnvPair, k int, rr ref.Result, ro Outcome) map[string]interface{} {
	return map[string]interface{}{
		"source": src, "options": j.optNames[oi], "env_style": pair.Style, "inject_panic_at_call": k,
		"reference": refOutcome(rr), "real": ro.String(),
		"ref_calls": pair.RefLog.String(), "real_calls": pair.RealLog.String(),
		"env": envBrief(pair.Real),
	}
}

func envBrief(e *envs.Env) string {
	s := fmt.Sprintf("A=%d B=%d C=%d I=%d X=%v Y=%v S=%q T=%q P=%v Q=%v Ints=%v Ints2=%v Floats=%v Strs=%q U=%d U8=%d U16=%d U32=%d U64=%d I8=%d I16=%d I32=%d I64=%d F32=%v F64=%v MI=%v MA=%v Anys=%v AnyI=%v AnyS=%v nItems=%d nPItems=%d It.ID=%d PIt.ID=%d",
		e.A, e.B, e.C, e.I, e.X, e.Y, e.S, e.T, e.P, e.Q, e.Ints, e.Ints2, e.Floats, e.Strs, e.U, e.U8, e.U16, e.U32, e.U64, e.I8, e.I16, e.I32, e.I64, e.F32, e.F64, e.MI, e.MA, e.Anys, e.AnyI, e.AnyS, len(e.Items), len(e.PItems), e.It.ID, e.PIt.ID)
	if len(s) > 900 {
		s = s[:900] + "…"
	}
	return s
}

// disagrees re-runs a sub-term alone.
func (j *evalJudge) disagrees(s *term.Term, oi int, style int, seed uint64, k int) bool {
	src := term.Print(s, term.PrintOpts{})
	prog, co := SafeCompile(src, j.opts[oi]...)
	if co.Failed() {
		return false
	}
	pair := NewEnvPair(style, seed)
	pair.Reset(0)
	rr := ref.Eval(s, pair.Ref, defaultBudget)
	if rr.Unspec != "" {
		return false
	}
	ro := SafeRun(prog, *pair.Real)
	switch {
	case ro.Panic != nil:
		return true
	case (rr.Fail != nil) != ro.Failed():
		return true
	case rr.Fail == nil && mon.Canon(rr.Value) != mon.Canon(ro.Val):
		return true
	case pair.RealLog.String() != pair.RefLog.String():
		return true
	}
	return false
}

func init() {
	var enum *term.Enum
	maxNodes := func(tier string) int {
		if tier == "thorough" {
			return 5
		}
		return 4
	}
	runner.Register(&runner.Check{
		ID:    "C01",
		Level: "exploration",
		Rule: "case = (expression, optimizer setting, environment value, injected-panic position); expressions: every reference-well-typed term up to 4 nodes (quick) / 5 nodes (thorough) over a reduced alphabet with depth-1 closures, plus seeded random typed terms of 3-60 nodes with nested closures; environments: zero, boundary, empty and random values of one struct type; " +
			"distinct = distinct (source, environment, injection) triples with a term of >= 2 nodes; each is judged against the reference evaluator on value (kind included), failure and call log",
		Assumptions: []string{
			"the reference evaluator (internal/ref) is the harness's reading of docs/Language-Definition.md and Go semantics; constructs it marks unspecified are executed but not judged",
			"results are compared by the value canon: sequences element-wise regardless of static slice type",
		},
		Phases: []runner.Phase{
			{
				Name: "corpus",
				N:    func(string) uint64 { return 1 },
				Run: func(c *runner.Ctx, idx uint64) {
					runDocCorpus(c)
				},
				Serial: true,
			},
			{
				Name: "exhaustive",
				N:    func(string) uint64 { return 64 },
				Run: func(c *runner.Ctx, idx uint64) {
					if enum == nil {
						enum = term.NewEnum(true)
					}
					tab := enum.Table(nil, maxNodes(c.Tier))
					j := newEvalJudge(c)
					ord := uint64(0)
					for n := 1; n < len(tab); n++ {
						for _, t := range tab[n] {
							ord++
							if ord%64 != idx {
								continue
							}
							r := runner.NewRng(c.Seed, 77, ord)
							k := 4
							if n >= 5 {
								k = 3
							}
							styles, seeds := EnvStyles(r, k)
							j.judge(t, styles, seeds, 2)
							c.Count("exhaustive_terms", 1)
							c.Count(fmt.Sprintf("exhaustive_terms_%d_nodes", n), 1)
						}
					}
				},
			},
			{
				Name: "random",
				N: func(tier string) uint64 {
					if tier == "thorough" {
						return 1500000
					}
					return 40000
				},
				Run: func(c *runner.Ctx, idx uint64) {
					g := term.NewGen(c.R, idx%3 != 0)
					size := []int{3, 5, 8, 12, 20, 30, 45, 60}[c.R.Intn(8)]
					var t *term.Term
					func() {
						defer func() {
							if r := recover(); r != nil {
								c.Inconclusive(fmt.Sprint(r))
							}
						}()
						t = g.Top(size)
					}()
					if t == nil {
						return
					}
					styles, seeds := EnvStyles(c.R, 5)
					inject := 0
					if idx%4 == 0 {
						inject = 6
					}
					newEvalJudge(c).judge(t, styles, seeds, inject)
					c.Count("random_terms", 1)
					countKinds(c, t)
				},
			},
			{
				// membership of a bare numeric identifier of every kind in a
				// literal range or array: the shape the optimizer rewrites
				Name: "numeric-membership",
				N:    func(string) uint64 { return uint64(len(c01MemberIdents)) },
				Run:  c01NumericMembership,
			},
		},
		Post: func(a *runner.Aggregate) []string {
			var out []string
			if a.Counters["ref_ok"] == 0 || a.Counters["runs_with_calls"] == 0 {
				out = append(out, "no judged successful evaluation or no run with logged calls")
			}
			return out
		},
	})
}

var c01MemberIdents = []string{"U", "U8", "U16", "U32", "U64", "A", "I", "Z", "I8", "I16", "I32", "I64", "F32", "X", "Y", "F64"}

func c01NumericMembership(c *runner.Ctx, idx uint64) {
	g := term.NewGen(c.R, true)
	name := c01MemberIdents[idx]
	bounds := [][2]int{{-200, 200}, {-2000, 2000}, {1, 3}, {0, 255}, {-60, 60}, {0, 0}, {5, 1}, {-10, -1}, {0, 70000}}
	j := newEvalJudge(c)
	mk := func(op string, rhs *term.Term) {
		id, err := term.Ident(g.Sc, name)
		if err != nil {
			c.Inconclusive(err.Error())
			return
		}
		t, err := term.Binary(g.Sc, op, id, rhs)
		if err != nil {
			c.Inconclusive(err.Error())
			return
		}
		styles, seeds := EnvStyles(c.R, 16)
		j.judge(t, styles, seeds, 0)
		c.Count("membership_terms", 1)
	}
	lit := func(v int) *term.Term {
		if v < 0 {
			u, err := term.Unary(g.Sc, "-", term.Int(-v))
			if err != nil {
				panic(err)
			}
			return u
		}
		return term.Int(v)
	}
	for _, op := range []string{"in", "not in"} {
		for _, b := range bounds {
			rng, err := term.Binary(g.Sc, "..", lit(b[0]), lit(b[1]))
			if err != nil {
				c.Inconclusive(err.Error())
				continue
			}
			mk(op, rng)
		}
		for _, nm := range []string{"Ints", "Ints2"} {
			if coll, err := term.Ident(g.Sc, nm); err == nil {
				mk(op, coll)
			}
		}
	}
}

func countKinds(c *runner.Ctx, t *term.Term) {
	t.Walk(func(x *term.Term) {
		if x == nil {
			return
		}
		name := x.K.String()
		if x.K == term.KBinary || x.K == term.KUnary || x.K == term.KBuiltin {
			name += ":" + x.Op
		}
		c.SetAdd("constructs_generated", name)
	})
}

// runDocCorpus runs the examples of docs/Language-Definition.md with the
// result the document states.
func runDocCorpus(c *runner.Ctx) {
	type ex struct {
		src  string
		env  map[string]interface{}
		want interface{}
	}
	arr := []int{1, 2, 3, 4, 5}
	exs := []ex{
		{`'Arthur' + ' ' + 'Dent'`, nil, "Arthur Dent"},
		{`not ("foo" matches "^b.+")`, nil, true},
		{`"foo" in {foo: 1, bar: 2}`, nil, true},
		{`"baz" in {foo: 1, bar: 2}`, nil, false},
		{`1..3 == [1, 2, 3]`, nil, true},
		{`map(0..9, {# / 2})`, nil, []int{0, 0, 1, 1, 2, 2, 3, 3, 4, 4}},
		{`len(array[3:])`, map[string]interface{}{"array": arr}, 2},
		{`array[3:] == [4, 5]`, map[string]interface{}{"array": arr}, true},
		{`array[:3] == [1, 2, 3]`, map[string]interface{}{"array": arr}, true},
		{`array[:] == array`, map[string]interface{}{"array": arr}, true},
		{`103`, nil, 103}, {`2.5`, nil, 2.5}, {`.5`, nil, 0.5},
		{`10_000_000_000`, nil, 10000000000},
		{`foo ? 'yes' : 'no'`, map[string]interface{}{"foo": true}, "yes"},
		{`2 ** 3`, nil, 8.0}, {`7 % 3`, nil, 1}, {`7 / 2`, nil, 3},
		{`5 in 1..5`, nil, true}, {`6 not in 1..5`, nil, true},
		{`one([1,2,3], {# > 2})`, nil, true},
		{`filter([1,2,3,4], {# % 2 == 0})`, nil, []int{2, 4}},
		{`count([1,2,3,4], {# > 1})`, nil, 3},
		{`all([1,2,3], {# > 0})`, nil, true}, {`none([1,2,3], {# > 3})`, nil, true}, {`any([1,2,3], {# > 2})`, nil, true},
	}
	for _, e := range exs {
		for oi, on := range []string{"optimize", "no-optimize"} {
			opts := []expr.Option{}
			var env interface{}
			if e.env != nil {
				opts = append(opts, expr.Env(e.env))
				env = e.env
			}
			if oi == 1 {
				opts = append(opts, expr.Optimize(false))
			}
			c.Begin(e.src)
			p, co := SafeCompile(e.src, opts...)
			c.Eval(1)
			var ro Outcome
			if !co.Failed() {
				ro = SafeRun(p, env)
				c.Eval(1)
			} else {
				ro = co
			}
			c.Count("doc_examples", 1)
			if ro.Failed() || mon.Canon(ro.Val) != mon.Canon(e.want) {
				c.Violate("doc-example:"+e.src+"|"+on, fmt.Sprintf("documented example %s: want %s got %s", e.src, mon.Short(e.want), ro),
					map[string]interface{}{"source": e.src, "options": on, "want": mon.Short(e.want), "got": ro.String()})
			}
		}
	}
}

// opOf is the coarse construct name of a term: kind and operator.
func opOf(t *term.Term) string {
	s := t.K.String()
	if t.Op != "" && t.K != term.KIdent && t.K != term.KField {
		s += "(" + t.Op + ")"
	}
	return s
}

// errKey normalises a real outcome to a short key for signatures.
func errKey(o Outcome) string {
	switch {
	case o.Panic != nil:
		return "panic"
	case o.Err != nil:
		return errKeyOf(o.Err)
	}
	return "ok"
}

var errKeyRe = regexp.MustCompile(`[0-9]+|"[^"]*"|\([0-9:]+\)`)

func errKeyOf(err error) string {
	m := firstLine(err.Error())
	m = errKeyRe.ReplaceAllString(m, "#")
	if len(m) > 60 {
		m = m[:60]
	}
	return m
}
