package checks

import (
	"fmt"
	"reflect"
	"strings"
	"unicode/utf8"

	"github.com/antonmedv/expr"
	"github.com/antonmedv/expr/file"

	"verif/internal/envs"
	"verif/internal/runner"
	"verif/internal/term"
)

// C13: errors point at the offending source position.
// Fault injection with a known position: one fault is planted in a well-typed
// term, the term is printed with a marker at the token the fault belongs to,
// laid out over several lines, and the reported (line, column) must be that
// token's position.

type c13Fault struct {
	class   string
	mutated *term.Term // whole term with the fault
	target  *term.Term // node whose location token is the expected position
	runtime bool
	needAny bool
}

// strictPositions collects sub-terms that are evaluated whenever the whole
// term is (no closure bodies, no right operands of and/or, no conditional arms).
func strictSubterms(t *term.Term) []*term.Term {
	var out []*term.Term
	var walk func(x *term.Term)
	walk = func(x *term.Term) {
		if x == nil {
			return
		}
		out = append(out, x)
		switch x.K {
		case term.KBinary:
			walk(x.Sub[0])
			if x.Op != "and" && x.Op != "or" && x.Op != "&&" && x.Op != "||" {
				walk(x.Sub[1])
			}
		case term.KCond:
			walk(x.Sub[0])
		case term.KBuiltin:
			walk(x.Sub[0])
		default:
			for _, s := range x.Sub {
				walk(s)
			}
		}
	}
	walk(t)
	return out
}

func allSubterms(t *term.Term) []*term.Term {
	var out []*term.Term
	t.Walk(func(x *term.Term) {
		if x != nil {
			out = append(out, x)
		}
	})
	return out
}

// inNilSafeChain reports nodes whose unknown names are accepted by design.
func nilSafeNodes(t *term.Term) map[*term.Term]bool {
	m := map[*term.Term]bool{}
	t.Walk(func(x *term.Term) {
		if x == nil || (x.K != term.KField && x.K != term.KMethod) {
			return
		}
		for y := x; y != nil && (y.K == term.KField || y.K == term.KMethod || y.K == term.KIndex || y.K == term.KSlice); y = y.Sub[0] {
			if (y.K == term.KField || y.K == term.KMethod) && y.NilSafe {
				m[x] = true
			}
		}
		if x.NilSafe {
			m[x.Sub[0]] = true
		}
	})
	return m
}

func c13MakeFault(r *runner.Rng, t *term.Term, g *term.Gen) *c13Fault {
	subs := allSubterms(t)
	ns := nilSafeNodes(t)
	pick := func(ok func(x *term.Term) bool, from []*term.Term) *term.Term {
		var cands []*term.Term
		for _, x := range from {
			if ok(x) {
				cands = append(cands, x)
			}
		}
		if len(cands) == 0 {
			return nil
		}
		return cands[r.Intn(len(cands))]
	}
	for tries := 0; tries < 12; tries++ {
		switch r.Intn(13) {
		case 12: // faults located at a conditional expression
			strictSet := map[*term.Term]bool{}
			for _, x := range strictSubterms(t) {
				strictSet[x] = true
			}
			n := pick(func(x *term.Term) bool { return x.K == term.KCond && x.Sub[0] != x.Sub[1] }, subs)
			if n == nil {
				continue
			}
			id := func(nm string) *term.Term {
				x, _ := term.Ident(&term.Scope{Env: envs.EnvType, AllowAny: true}, nm)
				return x
			}
			if r.Bool() || !strictSet[n] {
				// its condition is itself a conditional, of ints
				inner := &term.Term{K: term.KCond, T: term.IntT, Sub: []*term.Term{id(r.Pick([]string{"P", "Q"})), term.Int(1), term.Int(2)}}
				bad := rawCopy(n, inner, n.Sub[1], n.Sub[2])
				return &c13Fault{class: "non-bool-condition(conditional)", mutated: replaceNode(t, n, func() *term.Term { return bad }), target: inner}
			}
			// its condition is a dynamic value that is not a bool at run time
			bad := rawCopy(n, id("AnyS"), n.Sub[1], n.Sub[2])
			return &c13Fault{class: "runtime-non-bool-condition", mutated: replaceNode(t, n, func() *term.Term { return bad }), target: bad, runtime: true}
		case 0: // unknown identifier
			n := pick(func(x *term.Term) bool { return x.K == term.KIdent && !ns[x] }, subs)
			if n == nil {
				continue
			}
			bad := &term.Term{K: term.KIdent, Op: r.Pick([]string{"Nope", "unknownName", "Ä"})}
			return &c13Fault{class: "unknown-identifier", mutated: replaceNode(t, n, func() *term.Term { return bad }), target: bad}
		case 1: // unknown field / method
			n := pick(func(x *term.Term) bool {
				return (x.K == term.KField || x.K == term.KMethod) && !ns[x] && !(x.Sub[0].T != nil && x.Sub[0].T.Kind() == reflect.Map)
			}, subs)
			if n == nil {
				continue
			}
			bad := rawCopy(n, n.Sub...)
			bad.Op = "Nope"
			bad.Short = false
			cls := "unknown-field"
			if n.K == term.KMethod {
				cls = "unknown-method"
			}
			return &c13Fault{class: cls, mutated: replaceNode(t, n, func() *term.Term { return bad }), target: bad}
		case 2: // unknown function
			n := pick(func(x *term.Term) bool { return x.K == term.KCall }, subs)
			if n == nil {
				continue
			}
			bad := rawCopy(n, n.Sub...)
			bad.Op = "NopeFn"
			return &c13Fault{class: "unknown-function", mutated: replaceNode(t, n, func() *term.Term { return bad }), target: bad}
		case 3, 4: // operand type mismatch at one operator
			n := pick(func(x *term.Term) bool {
				if x.K == term.KUnary {
					return true
				}
				if x.K != term.KBinary {
					return false
				}
				switch x.Op {
				case "-", "*", "/", "%", "**", "and", "or", "&&", "||", "contains", "startsWith", "endsWith", "..", "<", ">", "<=", ">=":
					return true
				}
				return false
			}, subs)
			if n == nil {
				continue
			}
			var wrong reflect.Type
			switch {
			case n.K == term.KUnary && (n.Op == "not" || n.Op == "!"):
				wrong = term.IntT
			case n.K == term.KUnary:
				wrong = term.StrT
			case n.Op == "and" || n.Op == "or" || n.Op == "&&" || n.Op == "||":
				wrong = term.IntT
			case n.Op == "contains" || n.Op == "startsWith" || n.Op == "endsWith":
				wrong = term.IntT
			case term.IsStr(n.Sub[0].T):
				wrong = term.BoolT
			default:
				wrong = term.ItemT
			}
			var badOperand *term.Term
			func() {
				defer func() { recover() }()
				gp := &term.Gen{R: r, Sc: g.Sc, PureOnly: true, NoCalls: true}
				badOperand = gp.Of(wrong, 1)
			}()
			if badOperand == nil || badOperand.K == term.KPointer {
				continue
			}
			var bad *term.Term
			if n.K == term.KUnary {
				bad = rawCopy(n, badOperand)
			} else if r.Bool() {
				bad = rawCopy(n, badOperand, n.Sub[1])
			} else {
				bad = rawCopy(n, n.Sub[0], badOperand)
			}
			return &c13Fault{class: "operand-mismatch(" + n.Op + ")", mutated: replaceNode(t, n, func() *term.Term { return bad }), target: bad}
		case 5: // overflowing integer literal
			n := pick(func(x *term.Term) bool { return x.K == term.KInt }, subs)
			if n == nil {
				continue
			}
			bad := &term.Term{K: term.KFloat, Str: "99999999999999999999", T: term.IntT}
			return &c13Fault{class: "integer-literal-overflow", mutated: replaceNode(t, n, func() *term.Term { return bad }), target: bad}
		case 6, 7, 8, 9, 10, 11: // one failing run-time operation
			strict := strictSubterms(t)
			kind := r.Intn(8)
			var want reflect.Type
			switch kind {
			case 0, 1, 2, 5:
				want = term.IntT
			case 3, 4:
				want = term.StrT
			case 6, 7:
				want = term.BoolT
			}
			n := pick(func(x *term.Term) bool {
				return x.T == want && x.K != term.KPointer && term.Print(x, term.PrintOpts{}) != ""
			}, strict)
			if n == nil {
				continue
			}
			sc := g.Sc
			id := func(nm string) *term.Term {
				x, _ := term.Ident(&term.Scope{Env: envs.EnvType, AllowAny: true}, nm)
				return x
			}
			var bad, target *term.Term
			cls := ""
			switch kind {
			case 0:
				bad = rawBin(r.Pick([]string{"/", "%"}), id(r.Pick([]string{"A", "B"})), id("Z"))
				bad.T = term.IntT
				target, cls = bad, "runtime-division-by-zero"
			case 1:
				bad = rawIndex(id(r.Pick([]string{"Ints", "Ints2", "Empty"})), term.Int(100+r.Intn(50)))
				bad.T = term.IntT
				target, cls = bad, "runtime-index-out-of-range"
			case 2:
				bad = &term.Term{K: term.KField, Op: "ID", Sub: []*term.Term{id("NilIt")}, T: term.IntT}
				target, cls = bad, "runtime-nil-field"
				if r.Bool() {
					// a chain of selectors: the failing one is not the last
					inner := &term.Term{K: term.KField, Op: "Next", Sub: []*term.Term{id("NilIt")}, T: term.PItemT}
					mid := inner
					if r.Bool() {
						mid = &term.Term{K: term.KField, Op: "Next", Sub: []*term.Term{inner}, T: term.PItemT}
					}
					bad = &term.Term{K: term.KField, Op: "ID", Sub: []*term.Term{mid}, T: term.IntT}
					target = inner
				}
			case 3:
				bad = &term.Term{K: term.KMethod, Op: "Label", Sub: []*term.Term{id("NilIt")}, T: term.StrT}
				target, cls = bad, "runtime-panicking-method"
			case 4:
				bad = &term.Term{K: term.KField, Op: "Name", Sub: []*term.Term{id("NilIt")}, T: term.StrT}
				target, cls = bad, "runtime-nil-field"
				if r.Bool() {
					inner := &term.Term{K: term.KField, Op: "Next", Sub: []*term.Term{id("NilIt")}, T: term.PItemT}
					bad = &term.Term{K: term.KField, Op: "Name", Sub: []*term.Term{inner}, T: term.StrT}
					target = inner
				}
			case 5:
				bad = rawCall("Div", id("A"), id("Z"))
				bad.T = term.IntT
				target, cls = bad, "runtime-panicking-function"
			case 6:
				bad = rawBin("matches", id(r.Pick([]string{"S", "T"})), id("BadRe"))
				bad.T = term.BoolT
				target, cls = bad, "runtime-bad-regexp"
			case 7:
				// a dynamic operand of and/or that is not a bool at run time
				bad = rawBin(r.Pick([]string{"and", "or", "&&", "||"}), id("AnyS"), id(r.Pick([]string{"P", "Q"})))
				bad.T = term.BoolT
				target, cls = bad, "runtime-non-bool-operand-of-connective"
			}
			_ = sc
			return &c13Fault{class: cls, mutated: replaceNode(t, n, func() *term.Term { return bad }), target: target, runtime: true}
		}
	}
	return nil
}

// asFileError extracts the *file.Error.
func asFileError(err error) *file.Error {
	if fe, ok := err.(*file.Error); ok {
		return fe
	}
	return nil
}

// c13Generic checks what must hold for every error with a location.
func c13Generic(c *runner.Ctx, src string, err error, where string) {
	fe := asFileError(err)
	if fe == nil {
		c.Count("errors_without_location_type", 1)
		return
	}
	c.Count("file_errors_seen", 1)
	if fe.Location.Empty() {
		c.Count("file_errors_without_location", 1)
		return
	}
	lines := strings.Split(src, "\n")
	cas := map[string]interface{}{"source_quoted": clip(fmt.Sprintf("%q", src), 1500), "line": fe.Line, "column": fe.Column, "message": fe.Message, "from": where}
	if fe.Line < 1 || fe.Line > len(lines) {
		c.Violate("location-outside-source:line", fmt.Sprintf("error reported at line %d of a source with %d lines", fe.Line, len(lines)), cas)
		return
	}
	ln := lines[fe.Line-1]
	if fe.Column < 0 || fe.Column > utf8.RuneCountInString(ln) {
		c.Violate("location-outside-source:column", fmt.Sprintf("error reported at column %d of a line with %d characters", fe.Column, utf8.RuneCountInString(ln)), cas)
		return
	}
	// the snippet's first line is the named source line (tabs shown as spaces)
	if fe.Snippet != "" {
		sn := strings.Split(strings.TrimPrefix(fe.Snippet, "\n"), "\n")[0]
		want := " | " + strings.Replace(ln, "\t", " ", -1)
		if sn != want {
			cas["snippet"] = fe.Snippet
			c.Violate("snippet-is-not-the-named-line", fmt.Sprintf("snippet %q, line %d of the source is %q", sn, fe.Line, ln), cas)
			return
		}
		c.Count("snippets_checked", 1)
	}
}

func c13Case(c *runner.Ctx, idx uint64) {
	r := c.R
	g := term.NewGen(r, false)
	g.NoElvis = true
	var t *term.Term
	func() {
		defer func() {
			if rec := recover(); rec != nil {
				c.Inconclusive(fmt.Sprint(rec))
			}
		}()
		g.PureOnly = true
		t = g.Top(3 + r.Intn(30))
	}()
	if t == nil {
		return
	}
	f := c13MakeFault(r, t, g)
	if f == nil {
		c.Count("no_fault_site", 1)
		return
	}
	whole := f.mutated
	wrapped := false
	var prefix string
	if r.Bool() {
		// multi-byte content before the fault
		n := r.Intn(41)
		runes := []rune("é世😀ßж")
		var sb strings.Builder
		for i := 0; i < n; i++ {
			sb.WriteRune(runes[r.Intn(len(runes))])
		}
		prefix = sb.String()
		wrapped = true
	}
	marked := term.Print(whole, term.PrintOpts{Mark: f.target})
	if wrapped {
		marked = "[" + term.QuoteStr(prefix) + ", " + marked + "][1]"
	}
	flat, off := term.SplitMark(marked)
	if off < 0 {
		c.Inconclusive("HARNESS-BUG marker not printed for " + f.class)
		return
	}
	toks := term.Tokenize(flat)
	ti := term.TokenAt(toks, off)
	if ti < 0 {
		c.Inconclusive("HARNESS-BUG marked token not found: " + flat)
		return
	}
	src, lines, cols := term.Layout(r, toks, idx%5 != 0)
	wantLine, wantCol := lines[ti], cols[ti]
	c.Begin(src)
	c.Distinct(f.class + "|" + src)
	c.SetAdd("fault_classes", f.class)
	c.SetAdd("fault_node_kinds", f.class+"@"+f.target.K.String())
	cas := func(got *file.Error, stage string) map[string]interface{} {
		m := map[string]interface{}{"source_quoted": fmt.Sprintf("%q", src), "fault": f.class, "expected_line": wantLine, "expected_column": wantCol, "token": toks[ti].Text, "stage": stage}
		if got != nil {
			m["reported_line"], m["reported_column"], m["message"] = got.Line, got.Column, got.Message
		}
		return m
	}
	judge := func(err error, stage string) {
		c13Generic(c, src, err, stage)
		fe := asFileError(err)
		if fe == nil {
			c.Violate("no-location:"+f.class, "the error carries no source location: "+firstLine(err.Error()), cas(nil, stage))
			return
		}
		if fe.Line != wantLine || fe.Column != wantCol {
			c.Violate("wrong-position:"+f.class, fmt.Sprintf("error reported at (%d,%d), the offending token %q is at (%d,%d)", fe.Line, fe.Column, toks[ti].Text, wantLine, wantCol), cas(fe, stage))
			return
		}
		c.Count("positions_exact", 1)
	}
	variants := [][]expr.Option{{expr.Env(envs.Env{})}, {expr.Env(envs.Env{}), expr.Optimize(false)}}
	hasRetypedLiteral := false
	whole.Walk(func(x *term.Term) {
		if x != nil && x.K == term.KCall && retypingCalls[x.Op] {
			hasRetypedLiteral = true // fails for another reason when compiled untyped
		}
	})
	stages := []string{"typed", "typed,Optimize(false)"}
	if f.runtime && !hasRetypedLiteral {
		variants = append(variants, []expr.Option{}) // untyped
		stages = append(stages, "untyped")
	}
	// a result directive that fits the expression must not hide the fault
	switch {
	case term.IsBool(whole.T):
		variants, stages = append(variants, []expr.Option{expr.Env(envs.Env{}), expr.AsBool()}), append(stages, "typed,AsBool")
	case term.IsNum(whole.T):
		variants, stages = append(variants, []expr.Option{expr.Env(envs.Env{}), expr.AsFloat64()}), append(stages, "typed,AsFloat64")
	}
	for vi, opts := range variants {
		p, co := SafeCompile(src, opts...)
		c.Eval(1)
		stage := stages[vi]
		if co.Panic != nil {
			c.Violate("compile-panic", fmt.Sprint(co.Panic), cas(nil, stage))
			return
		}
		if !f.runtime {
			if co.Err == nil {
				c.Count("fault_not_rejected", 1)
				c.SetAdd("faults_not_rejected", f.class)
				continue
			}
			judge(co.Err, "compile/"+stage)
			continue
		}
		if co.Err != nil {
			c.Count("runtime_fault_program_rejected", 1)
			continue
		}
		e := envs.New(&envs.Log{})
		envs.Fill(e, 3, runner.NewRng(r.U64()))
		o := SafeRun(p, *e)
		c.Eval(1)
		if o.Panic != nil {
			c.Violate("run-panic", fmt.Sprint(o.Panic), cas(nil, stage))
			return
		}
		if o.Err == nil {
			c.Count("runtime_fault_did_not_fail", 1)
			continue
		}
		if stage == "untyped" && !c13PlantedMessage(f.class, o.Err.Error()) {
			// compiled without type information another operation may fail first
			// (e.g. `-(7 * Y) == len(xs)` is specialised to OpEqualInt because
			// int * interface{} is typed int): not the planted fault
			c.Count("untyped_run_failed_elsewhere", 1)
			continue
		}
		judge(o.Err, "run/"+stage)
	}
	if c.WantSample() {
		c.Sample(map[string]interface{}{"source_quoted": fmt.Sprintf("%q", src), "fault": f.class, "expected_line": wantLine, "expected_column": wantCol})
	}
}

// c13Syntax: a surplus token at a place where it cannot continue the
// expression is reported at that token.
func c13Syntax(c *runner.Ctx, idx uint64) {
	r := c.R
	g := term.NewGen(r, false)
	g.NoElvis = true
	var t *term.Term
	func() {
		defer func() { recover() }()
		t = g.Top(2 + r.Intn(25))
	}()
	if t == nil {
		return
	}
	flat := term.Print(t, term.PrintOpts{})
	toks := term.Tokenize(flat)
	if len(toks) == 0 {
		return
	}
	isOperandEnd := func(s string) bool {
		if s == ")" || s == "]" || s == "}" {
			return true
		}
		ch, _ := utf8.DecodeRuneInString(s)
		if ch == '"' || ch == '\'' || (ch >= '0' && ch <= '9') || ch == '#' {
			return true
		}
		switch s {
		case "not", "in", "not in", "and", "or", "matches", "contains", "startsWith", "endsWith":
			return false
		}
		return ch == '_' || ch == '$' || (ch >= 'A' && ch <= 'Z') || (ch >= 'a' && ch <= 'z')
	}
	isBinaryOp := func(s string) bool { return term.BinPrec(s) > 0 }
	var sites []int // insert before token index i (len = after the last)
	var kinds []string
	for i := 1; i <= len(toks); i++ {
		prev := toks[i-1].Text
		if isOperandEnd(prev) {
			// an identifier after a complete operand
			next := ""
			if i < len(toks) {
				next = toks[i].Text
			}
			if next != "(" && next != "[" && next != "." && next != "?." && !(prev == "}" && false) {
				sites = append(sites, i)
				kinds = append(kinds, "surplus-identifier")
			}
		}
		if isBinaryOp(prev) || prev == "(" || prev == "," || prev == "[" {
			if i < len(toks) {
				sites = append(sites, i)
				kinds = append(kinds, "surplus-operator")
			}
		}
	}
	if len(sites) == 0 {
		return
	}
	k := r.Intn(len(sites))
	at, kind := sites[k], kinds[k]
	// avoid the identifier landing right after a map key or before ':' of a map pair
	ins := term.Tok{Text: r.Pick([]string{"Nope", "zzz", "Ünknown"})}
	if kind == "surplus-operator" {
		ins = term.Tok{Text: r.Pick([]string{"*", "/", "%", "==", "and", ">=", "**"})}
	}
	nt := append(append(append([]term.Tok{}, toks[:at]...), ins), toks[at:]...)
	if at < len(toks) {
		nt[at+1].Glued = false
	}
	src, lines, cols := term.Layout(r, nt, idx%4 != 0)
	c.Begin(src)
	_, po := safeParse(src)
	c.Eval(1)
	cas := map[string]interface{}{"source_quoted": fmt.Sprintf("%q", src), "fault": kind, "token": ins.Text, "expected_line": lines[at], "expected_column": cols[at]}
	if po.Panic != nil {
		c.Violate("parse-panic", fmt.Sprint(po.Panic), cas)
		return
	}
	if po.Err == nil {
		// the surplus token happened to be acceptable here (e.g. an identifier
		// used as a map key): nothing to judge
		c.Count("syntax_fault_accepted", 1)
		return
	}
	c.Distinct(kind + "|" + src)
	c.SetAdd("fault_classes", kind)
	c13Generic(c, src, po.Err, "parse")
	fe := asFileError(po.Err)
	if fe == nil {
		c.Violate("no-location:"+kind, "syntax error without location", cas)
		return
	}
	if fe.Line != lines[at] || fe.Column != cols[at] {
		cas["reported_line"], cas["reported_column"], cas["message"] = fe.Line, fe.Column, fe.Message
		c.Violate("wrong-position:"+kind, fmt.Sprintf("syntax error reported at (%d,%d), the surplus token %q is at (%d,%d)", fe.Line, fe.Column, ins.Text, lines[at], cols[at]), cas)
		return
	}
	c.Count("positions_exact", 1)
}

func init() {
	runner.Register(&runner.Check{
		ID:    "C13",
		Level: "fault_enumeration",
		Rule: "case = a generated well-typed expression with exactly one injected fault whose position is known: unknown identifier/field/method/function, operand-type mismatch at one operator, overflowing integer literal, a surplus identifier or operator token, or exactly one failing run-time operation (integer division/modulo by an environment zero, index out of range, field of a nil pointer, panicking function or method, bad dynamic regexp) placed where it is always evaluated; the source is laid out with random spaces, tabs, LF and CRLF between any two tokens and optionally preceded by 0-40 multi-byte runes; compiled typed with both optimizer settings (run-time faults also untyped); every error of the run additionally gets the generic in-source/snippet check, as do errors of random token soup; " +
			"distinct = distinct (fault class, laid-out source) pairs",
		Assumptions: []string{
			"expected positions come from the harness's own tokenizer and layout engine (internal/term/layout.go), not from the library's lexer",
			"lexer-level errors (bad escape, unterminated literal, unrecognised rune) are pinned one column past the rune by the repository's tests: only the in-source/snippet part applies to them",
			"an error whose Location is empty reports no location and is not subject to the in-source check",
		},
		Phases: []runner.Phase{
			{Name: "faults", N: func(tier string) uint64 {
				if tier == "thorough" {
					return 2000000
				}
				return 50000
			}, Run: c13Case},
			{Name: "syntax", N: func(tier string) uint64 {
				if tier == "thorough" {
					return 1500000
				}
				return 40000
			}, Run: c13Syntax},
			{Name: "syntax-fixed", N: func(tier string) uint64 {
				if tier == "thorough" {
					return 60000
				}
				return 2000
			}, Run: c13SyntaxFixed},
			{Name: "any-error", N: func(tier string) uint64 {
				if tier == "thorough" {
					return 1500000
				}
				return 40000
			}, Run: func(c *runner.Ctx, idx uint64) {
				r := c.R
				n := 1 + r.Intn(25)
				var sb strings.Builder
				for i := 0; i < n; i++ {
					sb.WriteString(c04Tokens[r.Intn(len(c04Tokens))])
					sb.WriteString([]string{" ", " ", "\n", "\t", "", "\r\n"}[r.Intn(6)])
				}
				src := sb.String()
				if !utf8.ValidString(src) {
					return
				}
				if idx < 64 {
					c.Begin(src)
				}
				p, co := SafeCompile(src, expr.Env(envs.Env{}))
				c.Eval(1)
				if co.Err != nil {
					c13Generic(c, src, co.Err, "compile")
					return
				}
				if p != nil && co.Panic == nil {
					e := envs.New(&envs.Log{})
					envs.Fill(e, int(idx%4), runner.NewRng(r.U64()))
					if o := SafeRun(p, *e); o.Err != nil {
						c13Generic(c, src, o.Err, "run")
					}
					c.Eval(1)
				}
			}},
		},
		Post: func(a *runner.Aggregate) []string {
			var out []string
			if a.Counters["positions_exact"] == 0 || a.Counters["snippets_checked"] == 0 {
				out = append(out, "no exact position or no snippet was checked")
			}
			if len(a.Sets["fault_classes"]) < 12 {
				out = append(out, fmt.Sprintf("only %d fault classes exercised", len(a.Sets["fault_classes"])))
			}
			return out
		},
	})
}

// c13PlantedMessage reports whether a run-time error message belongs to the
// planted fault class.
func c13PlantedMessage(class, msg string) bool {
	has := func(xs ...string) bool {
		for _, x := range xs {
			if strings.Contains(msg, x) {
				return true
			}
		}
		return false
	}
	switch class {
	case "runtime-division-by-zero", "runtime-panicking-function":
		return has("integer divide by zero")
	case "runtime-index-out-of-range":
		return has("index out of range")
	case "runtime-nil-field":
		return has("cannot fetch")
	case "runtime-panicking-method":
		return has("nil pointer", "invalid memory address")
	case "runtime-bad-regexp":
		return has("error parsing regexp")
	case "runtime-non-bool-operand-of-connective", "runtime-non-bool-condition":
		// ("interface conversion ... not int" is the untyped specialisation of
		// another operation failing first)
		return has("not bool")
	}
	return true
}

// c13SyntaxFixed: three syntax faults whose offending token is known by
// construction (a literal pattern that is not a regexp, a non-name after a
// dot, a string literal that is not closed on its line), laid out over several
// lines so that "the token after" is on another line.
// c13RewrittenMembership: a run-time failure inside `x in a..b` / `x in [..]`
// (the declared int holds something else at run time, which a map environment
// allows) is located at the `in`, also when the optimizer has rewritten it.
func c13RewrittenMembership(c *runner.Ctx, r *runner.Rng) {
	pre := r.Pick([]string{"Ok and\n ", "Ok and ", "Ok and\n\t"})
	op := r.Pick([]string{"in", "not in"})
	right := r.Pick([]string{"1..3", "[1, 2, 3]", "2..2"})
	src := pre + "A " + op + " " + right
	off := len(pre) + 2
	wantLine, wantCol := 1, 0
	for _, ru := range src[:off] {
		if ru == '\n' {
			wantLine, wantCol = wantLine+1, 0
		} else {
			wantCol++
		}
	}
	c.Begin(src)
	for _, optimize := range []bool{true, false} {
		p, co := SafeCompile(src, expr.Env(map[string]interface{}{"Ok": true, "A": 0}), expr.Optimize(optimize))
		c.Eval(1)
		if co.Failed() {
			return
		}
		for _, bad := range []interface{}{"2", nil, 2.5, []int{1}} {
			o := SafeRun(p, map[string]interface{}{"Ok": true, "A": bad})
			c.Eval(1)
			if o.Err == nil || o.Panic != nil {
				continue
			}
			c.SetAdd("fault_classes", "runtime-wrong-type-in-membership")
			cas := map[string]interface{}{"source_quoted": fmt.Sprintf("%q", src), "optimize": optimize, "value_of_A": fmt.Sprintf("%#v", bad), "error": o.Err.Error(), "expected_line": wantLine, "expected_column": wantCol}
			fe := asFileError(o.Err)
			if fe == nil || fe.Location.Empty() {
				c.Violate("no-location:runtime-wrong-type-in-membership", "the error carries no source location: "+firstLine(o.Err.Error()), cas)
				return
			}
			if fe.Line != wantLine || fe.Column != wantCol {
				c.Violate("wrong-position:runtime-wrong-type-in-membership", fmt.Sprintf("error reported at (%d,%d), the operator %q is at (%d,%d)", fe.Line, fe.Column, op, wantLine, wantCol), cas)
				return
			}
			c.Count("positions_exact", 1)
		}
	}
}

// c13OverloadRuntime: a failure inside the function an overloaded operator
// stands for is located at the operator.
func c13OverloadRuntime(c *runner.Ctx, r *runner.Rng) {
	pre := r.Pick([]string{"P or\n ", "P or ", "A > 100 or\n\t "})
	left := r.Pick([]string{"A", "B", "(A + 1)"})
	src := pre + left + " / Z > 0"
	off := len(pre) + len(left) + 1
	wantLine, wantCol := 1, 0
	for _, ru := range src[:off] {
		if ru == '\n' {
			wantLine, wantCol = wantLine+1, 0
		} else {
			wantCol++
		}
	}
	c.Begin(src)
	for _, optimize := range []bool{true, false} {
		sample := envs.New(&envs.Log{})
		p, co := SafeCompile(src, expr.Env(*sample), expr.Operator("/", "Div"), expr.Optimize(optimize))
		c.Eval(1)
		if co.Failed() {
			c.Count("overload_runtime_rejected", 1)
			return
		}
		e := envs.New(&envs.Log{})
		envs.Fill(e, 3, runner.NewRng(3))
		e.P, e.Z, e.A = false, 0, 5
		o := SafeRun(p, *e)
		c.Eval(1)
		if o.Err == nil || o.Panic != nil {
			c.Count("runtime_fault_did_not_fail", 1)
			continue
		}
		c.SetAdd("fault_classes", "runtime-failure-in-overload-function")
		cas := map[string]interface{}{"source_quoted": fmt.Sprintf("%q", src), "optimize": optimize, "operator": "/ -> Div", "error": o.Err.Error(), "expected_line": wantLine, "expected_column": wantCol}
		fe := asFileError(o.Err)
		if fe == nil || fe.Location.Empty() {
			c.Violate("no-location:runtime-failure-in-overload-function", "the error carries no source location: "+firstLine(o.Err.Error()), cas)
			return
		}
		if fe.Line != wantLine || fe.Column != wantCol {
			c.Violate("wrong-position:runtime-failure-in-overload-function", fmt.Sprintf("error reported at (%d,%d), the operator is at (%d,%d)", fe.Line, fe.Column, wantLine, wantCol), cas)
			return
		}
		c.Count("positions_exact", 1)
	}
}

func c13SyntaxFixed(c *runner.Ctx, idx uint64) {
	r := c.R
	if idx%8 == 0 {
		c13RewrittenMembership(c, r)
	}
	if idx%8 == 4 {
		c13OverloadRuntime(c, r)
	}
	pre := r.Pick([]string{"", "A > 0 and", "P or", "[1, 2] == Ints ? 1 :", "not"})
	post := r.Pick([]string{"", "and true", "or Q", "== P"})
	sep := func() string { return r.Pick([]string{" ", "\n", "\n  ", " \n\t", "\r\n", "  "}) }
	var src, class, token string
	switch idx % 4 {
	case 3:
		token = r.Pick([]string{`"abc\`, `'x\`})
		src, class = pre+sep()+"S =="+sep()+"\x01"+token+"\n\" + S"+sep()+post, "escape-before-line-end"
	case 0:
		token = r.Pick([]string{`"["`, `"a(b"`, `"*"`, `'[a-'`})
		src, class = pre+sep()+"S"+sep()+"matches"+sep()+"\x01"+token+sep()+post, "invalid-regexp-literal"
	case 1:
		token = r.Pick([]string{"(", "[", "1", `"x"`, "+"})
		tail := map[string]string{"(": "A)", "[": "0]", "1": "", `"x"`: "", "+": "A"}[token]
		src, class = pre+sep()+"It"+sep()+"."+sep()+"\x01"+token+sep()+tail+sep()+post, "non-name-after-dot"
	default:
		token = r.Pick([]string{`"abc`, `'x y`, `"`})
		src, class = pre+sep()+"S =="+sep()+"\x01"+token+"\n"+r.Pick([]string{"+ 1", "and P", " "})+sep()+post, "unterminated-string-literal"
	}
	off := strings.IndexByte(src, 1)
	src = src[:off] + src[off+1:]
	wantLine, wantCol := 1, 0
	for _, ru := range src[:off] {
		if ru == '\n' {
			wantLine++
			wantCol = 0
		} else {
			wantCol++
		}
	}
	c.Begin(src)
	c.SetAdd("fault_classes", class)
	_, po := safeParse(src)
	c.Eval(1)
	cas := map[string]interface{}{"source_quoted": fmt.Sprintf("%q", src), "fault": class, "token": token, "expected_line": wantLine, "expected_column": wantCol}
	if po.Panic != nil {
		c.Violate("parse-panic", fmt.Sprint(po.Panic), cas)
		return
	}
	if po.Err == nil {
		c.Count("fault_not_rejected", 1)
		return
	}
	c13Generic(c, src, po.Err, "parse")
	fe := asFileError(po.Err)
	if fe == nil || fe.Location.Empty() {
		c.Violate("no-location:"+class, "the error carries no source location: "+firstLine(po.Err.Error()), cas)
		return
	}
	cas["reported_line"], cas["reported_column"], cas["message"] = fe.Line, fe.Column, fe.Message
	c.Distinct(src)
	if class == "unterminated-string-literal" || class == "escape-before-line-end" {
		// the lexer reports the end of the literal (pinned by its own tests for
		// the single-line case): the line must be the literal's, the column
		// inside or just after it
		if fe.Line != wantLine || fe.Column < wantCol {
			c.Violate("wrong-position:"+class, fmt.Sprintf("error reported at (%d,%d), the literal %q starts at (%d,%d) and ends on that line", fe.Line, fe.Column, token, wantLine, wantCol), cas)
			return
		}
	} else if fe.Line != wantLine || fe.Column != wantCol {
		c.Violate("wrong-position:"+class, fmt.Sprintf("error reported at (%d,%d), the offending token %q is at (%d,%d)", fe.Line, fe.Column, token, wantLine, wantCol), cas)
		return
	}
	c.Count("positions_exact", 1)
}
