package checks

import (
	"fmt"
	"reflect"
	"strings"

	"github.com/antonmedv/expr"
	"github.com/antonmedv/expr/ast"

	"verif/internal/envs"
	"verif/internal/mon"
	"verif/internal/runner"
	"verif/internal/term"
)

// C10: AST traversal reaches every node exactly once.
// Trace specification: the Enter/Exit stream of ast.Walk is compared with the
// stream predicted by a reflection-based enumeration of every Node-typed field
// (in field = source order) of every reachable node, slot addresses included.

var nodeIface = reflect.TypeOf((*ast.Node)(nil)).Elem()

// childSlots lists the addresses of the non-nil child slots of n in field order.
func childSlots(n ast.Node) []*ast.Node {
	var out []*ast.Node
	v := reflect.ValueOf(n)
	if v.Kind() != reflect.Ptr || v.IsNil() {
		return nil
	}
	v = v.Elem()
	for i := 0; i < v.NumField(); i++ {
		f := v.Field(i)
		switch {
		case f.Type() == nodeIface:
			if !f.IsNil() {
				out = append(out, f.Addr().Interface().(*ast.Node))
			}
		case f.Kind() == reflect.Slice && f.Type().Elem() == nodeIface:
			for j := 0; j < f.Len(); j++ {
				if !f.Index(j).IsNil() {
					out = append(out, f.Index(j).Addr().Interface().(*ast.Node))
				}
			}
		}
	}
	return out
}

// walkSlots is childSlots with the one exception the tree shape has: the
// parser builds `a ?: b` as ConditionalNode{Cond: n, Exp1: n} with one node n
// in both slots, which is one node of the tree and is walked through Cond.
func walkSlots(n ast.Node) []*ast.Node {
	slots := childSlots(n)
	if c, ok := n.(*ast.ConditionalNode); ok && c.Cond != nil && c.Cond == c.Exp1 && len(slots) >= 2 {
		return append(slots[:1:1], slots[2:]...)
	}
	return slots
}

type walkEvent struct {
	enter bool
	slot  *ast.Node
	node  ast.Node
}

func expectedStream(slot *ast.Node, out *[]walkEvent) {
	*out = append(*out, walkEvent{true, slot, *slot})
	for _, c := range walkSlots(*slot) {
		expectedStream(c, out)
	}
	*out = append(*out, walkEvent{false, slot, *slot})
}

type recVisitor struct {
	events []walkEvent
}

func (r *recVisitor) Enter(n *ast.Node) { r.events = append(r.events, walkEvent{true, n, *n}) }
func (r *recVisitor) Exit(n *ast.Node)  { r.events = append(r.events, walkEvent{false, n, *n}) }

func safeWalk(root *ast.Node, v ast.Visitor) (pan interface{}) {
	defer func() {
		if r := recover(); r != nil {
			pan = r
		}
	}()
	runner.LibEnter()
	defer runner.LibLeave()
	ast.Walk(root, v)
	return nil
}

func nodeKindName(n ast.Node) string {
	if n == nil {
		return "nil"
	}
	return strings.TrimPrefix(reflect.TypeOf(n).String(), "*ast.")
}

// compareStreams returns a description of the first divergence, or "".
func compareStreams(want, got []walkEvent) string {
	n := len(want)
	if len(got) < n {
		n = len(got)
	}
	dir := func(e walkEvent) string {
		if e.enter {
			return "Enter"
		}
		return "Exit"
	}
	for i := 0; i < n; i++ {
		w, g := want[i], got[i]
		if w.enter != g.enter || w.node != g.node {
			return fmt.Sprintf("event %d: want %s(%s) got %s(%s)", i, dir(w), nodeKindName(w.node), dir(g), nodeKindName(g.node))
		}
		if w.slot != g.slot {
			return fmt.Sprintf("event %d: %s(%s) was handed a pointer that is not the parent's slot", i, dir(g), nodeKindName(g.node))
		}
	}
	if len(want) != len(got) {
		if len(got) < len(want) {
			w := want[len(got)]
			return fmt.Sprintf("stream ends after %d events; missing %s(%s) and %d more", len(got), dir(w), nodeKindName(w.node), len(want)-len(got)-1)
		}
		g := got[len(want)]
		return fmt.Sprintf("surplus event %d: %s(%s)", len(want), dir(g), nodeKindName(g.node))
	}
	return ""
}

var c10Kinds = []string{"Nil", "Identifier", "Integer", "Float", "Bool", "String", "Constant", "Unary", "Binary", "Matches", "Property", "Index", "Slice", "SliceFrom", "SliceTo", "SliceBoth",
	"Method", "Method0", "Function", "Function0", "Builtin1", "Builtin2", "Closure", "Pointer", "Conditional", "Elvis", "Array", "Array0", "Map", "Map0", "Pair"}

// mkNode builds a node of the given kind whose child slots are filled by next().
func mkNode(kind string, next func() ast.Node) ast.Node {
	switch kind {
	case "Nil":
		return &ast.NilNode{}
	case "Identifier":
		return &ast.IdentifierNode{Value: "x"}
	case "Integer":
		return &ast.IntegerNode{Value: 1}
	case "Float":
		return &ast.FloatNode{Value: 1.5}
	case "Bool":
		return &ast.BoolNode{Value: true}
	case "String":
		return &ast.StringNode{Value: "s"}
	case "Constant":
		return &ast.ConstantNode{Value: []int{1, 2}}
	case "Unary":
		return &ast.UnaryNode{Operator: "-", Node: next()}
	case "Binary":
		return &ast.BinaryNode{Operator: "+", Left: next(), Right: next()}
	case "Matches":
		return &ast.MatchesNode{Left: next(), Right: next()}
	case "Property":
		return &ast.PropertyNode{Node: next(), Property: "p"}
	case "Index":
		return &ast.IndexNode{Node: next(), Index: next()}
	case "Slice":
		return &ast.SliceNode{Node: next()}
	case "SliceFrom":
		return &ast.SliceNode{Node: next(), From: next()}
	case "SliceTo":
		return &ast.SliceNode{Node: next(), To: next()}
	case "SliceBoth":
		return &ast.SliceNode{Node: next(), From: next(), To: next()}
	case "Method":
		return &ast.MethodNode{Node: next(), Method: "m", Arguments: []ast.Node{next(), next()}}
	case "Method0":
		return &ast.MethodNode{Node: next(), Method: "m"}
	case "Function":
		return &ast.FunctionNode{Name: "f", Arguments: []ast.Node{next(), next(), next()}}
	case "Function0":
		return &ast.FunctionNode{Name: "f"}
	case "Builtin1":
		return &ast.BuiltinNode{Name: "len", Arguments: []ast.Node{next()}}
	case "Builtin2":
		return &ast.BuiltinNode{Name: "map", Arguments: []ast.Node{next(), &ast.ClosureNode{Node: next()}}}
	case "Closure":
		return &ast.ClosureNode{Node: next()}
	case "Pointer":
		return &ast.PointerNode{}
	case "Conditional":
		return &ast.ConditionalNode{Cond: next(), Exp1: next(), Exp2: next()}
	case "Elvis":
		// a ?: b as the parser builds it: one node in both slots
		shared := next()
		return &ast.ConditionalNode{Cond: shared, Exp1: shared, Exp2: next()}
	case "Array":
		return &ast.ArrayNode{Nodes: []ast.Node{next(), next(), next()}}
	case "Array0":
		return &ast.ArrayNode{}
	case "Map":
		return &ast.MapNode{Pairs: []ast.Node{&ast.PairNode{Key: next(), Value: next()}, &ast.PairNode{Key: next(), Value: next()}}}
	case "Map0":
		return &ast.MapNode{}
	case "Pair":
		return &ast.PairNode{Key: next(), Value: next()}
	}
	panic("HARNESS-BUG unknown node kind " + kind)
}

type markReplacer struct{ replaced int }

func (m *markReplacer) Enter(*ast.Node) {}
func (m *markReplacer) Exit(n *ast.Node) {
	if id, ok := (*n).(*ast.IdentifierNode); ok && id.Value == "__marker" {
		ast.Patch(n, &ast.IntegerNode{Value: 7})
		m.replaced++
	}
}

func countMarkers(slot *ast.Node) (markers, sevens int) {
	if id, ok := (*slot).(*ast.IdentifierNode); ok && id.Value == "__marker" {
		markers++
	}
	if in, ok := (*slot).(*ast.IntegerNode); ok && in.Value == 7 {
		sevens++
	}
	for _, c := range walkSlots(*slot) {
		m, s := countMarkers(c)
		markers += m
		sevens += s
	}
	return
}

// c10CheckTree runs both oracles on one tree. desc describes the tree.
func c10CheckTree(c *runner.Ctx, root ast.Node, desc string) {
	var want []walkEvent
	expectedStream(&root, &want)
	rv := &recVisitor{}
	pan := safeWalk(&root, rv)
	c.Eval(1)
	c.Count("walk_events", int64(len(rv.events)))
	c.Count("nodes_walked", int64(len(want)/2))
	if pan != nil {
		c.Violate("walk-panic:"+sigWords(fmt.Sprint(pan)), fmt.Sprintf("ast.Walk panicked: %v", pan), map[string]interface{}{"tree": desc})
		return
	}
	// every node is entered exactly once (a node reachable through two slots
	// would be visited, patched and compiled twice)
	entered := map[ast.Node]int{}
	for _, e := range rv.events {
		if e.enter {
			entered[e.node]++
		}
	}
	for n, k := range entered {
		if k > 1 {
			if sharedByElvis(root, n) {
				c.Violate("node-entered-twice:condition-of-elvis-shared-with-first-arm", fmt.Sprintf("the parser builds `a ?: b` with one %s node in both the Cond and the Exp1 slot: it is entered %d times", nodeKindName(n), k),
					map[string]interface{}{"tree": desc})
				return
			}
			c.Violate("node-entered-twice:"+nodeKindName(n), fmt.Sprintf("a %s node is entered %d times: it is shared by two slots of the tree", nodeKindName(n), k), map[string]interface{}{"tree": desc, "dump": clip(ast.Dump(root), 1500)})
			return
		}
	}
	if d := compareStreams(want, rv.events); d != "" {
		c.Violate("stream:"+sigWords(d), "Enter/Exit stream differs from the node enumeration: "+d, map[string]interface{}{"tree": desc, "dump": clip(ast.Dump(root), 1500)})
		return
	}
	// replacement through the slot takes effect
	before, _ := countMarkers(&root)
	elvisBefore := map[*ast.ConditionalNode]bool{}
	var collectElvis func(n ast.Node)
	collectElvis = func(n ast.Node) {
		if cn, ok := n.(*ast.ConditionalNode); ok && cn.Cond != nil && cn.Cond == cn.Exp1 {
			elvisBefore[cn] = true
		}
		for _, s := range walkSlots(n) {
			collectElvis(*s)
		}
	}
	collectElvis(root)
	if before > 0 {
		_, sevens0 := countMarkers(&root)
		mr := &markReplacer{}
		if pan := safeWalk(&root, mr); pan != nil {
			c.Violate("walk-panic-replacing", fmt.Sprint(pan), map[string]interface{}{"tree": desc})
			return
		}
		c.Eval(1)
		after, sevens := countMarkers(&root)
		c.Count("replacements_checked", int64(before))
		// a replacement of the operand of `a ?: b` takes both slots
		unshared := false
		var findElvis func(n ast.Node)
		findElvis = func(n ast.Node) {
			if cn, ok := n.(*ast.ConditionalNode); ok && elvisBefore[cn] && cn.Cond != cn.Exp1 {
				unshared = true
			}
			for _, s := range childSlots(n) {
				findElvis(*s)
			}
		}
		findElvis(root)
		if unshared {
			c.Violate("elvis-operand-unshared-by-replacement", "after a visitor replaced the operand of `a ?: b` the condition and the first arm are different nodes", map[string]interface{}{"tree": desc, "dump": clip(ast.Dump(root), 1500)})
			return
		}
		if after != 0 || mr.replaced != before || sevens-sevens0 != before {
			c.Violate("replacement-lost", fmt.Sprintf("%d marker nodes, visitor replaced %d, %d markers remain in the tree, %d replacements present", before, mr.replaced, after, sevens-sevens0),
				map[string]interface{}{"tree": desc, "dump": clip(ast.Dump(root), 1500)})
		}
	}
}

func init() {
	runner.Register(&runner.Check{
		ID:    "C10",
		Level: "exploration",
		Rule: "case = one syntax tree walked with a recording visitor and a replacing visitor; trees: every node kind x every child slot x every node kind as that child (exhaustive, depth 2, built directly incl. ConstantNode and open-ended SliceNode forms), random trees to depth 8, parsed trees of generated terms; plus patched-program differential (user Patch vs textual substitution) and a constant planted in every int-typed slot that must come out folded; " +
			"distinct = distinct tree shapes (dump hash) with at least one child slot",
		Assumptions: []string{
			"node kinds defined outside package ast are out of scope",
			"the expected stream is derived by reflection from the exported Node-typed fields in declaration order, which is source order for every node kind",
		},
		Phases: []runner.Phase{
			{Name: "slots", Serial: true, N: func(string) uint64 { return 1 }, Run: c10Slots},
			{Name: "random-trees", N: func(tier string) uint64 {
				if tier == "thorough" {
					return 1500000
				}
				return 40000
			}, Run: c10RandomTree},
			{Name: "parsed-trees", N: func(tier string) uint64 {
				if tier == "thorough" {
					return 600000
				}
				return 15000
			}, Run: c10ParsedTree},
			{Name: "patch-operators", N: func(tier string) uint64 {
				if tier == "thorough" {
					return 300000
				}
				return 4000
			}, Run: c10PatchOperators},
			{Name: "patch-compile", N: func(tier string) uint64 {
				if tier == "thorough" {
					return 400000
				}
				return 12000
			}, Run: c10PatchCompile},
		},
		Post: func(a *runner.Aggregate) []string {
			var out []string
			if a.Counters["replacements_checked"] == 0 || a.Counters["patched_programs_compared"] == 0 || a.Counters["planted_constants_folded"] == 0 {
				out = append(out, "an oracle observed nothing (replacements, patched programs or planted constants)")
			}
			return out
		},
	})
}

func c10Slots(c *runner.Ctx, idx uint64) {
	for _, pk := range c10Kinds {
		// number of slots of this parent kind
		nslots := 0
		mkNode(pk, func() ast.Node { nslots++; return &ast.IdentifierNode{Value: "l"} })
		for slot := 0; slot < nslots; slot++ {
			for _, ck := range c10Kinds {
				i := 0
				root := mkNode(pk, func() ast.Node {
					defer func() { i++ }()
					if i == slot {
						return mkNode(ck, func() ast.Node { return &ast.IdentifierNode{Value: "__marker"} })
					}
					return &ast.IdentifierNode{Value: "__marker"}
				})
				desc := fmt.Sprintf("%s[slot %d]=%s", pk, slot, ck)
				c.Begin(desc)
				c.Distinct(desc)
				c.SetAdd("parent_slot_child", desc)
				c10CheckTree(c, root, desc)
			}
		}
	}
	c.Sample(map[string]interface{}{"tree": "SliceBoth[slot 0]=Binary", "meaning": "SliceNode{Node: BinaryNode{…}, From: id, To: id}"})
}

func c10RandomTree(c *runner.Ctx, idx uint64) {
	r := c.R
	var gen func(depth int) ast.Node
	gen = func(depth int) ast.Node {
		if depth <= 0 || r.Chance(1, 5) {
			if r.Chance(1, 3) {
				return &ast.IdentifierNode{Value: "__marker"}
			}
			return mkNode(r.Pick([]string{"Nil", "Identifier", "Integer", "Float", "Bool", "String", "Constant", "Pointer", "Array0", "Map0", "Function0"}), nil)
		}
		return mkNode(c10Kinds[r.Intn(len(c10Kinds))], func() ast.Node { return gen(depth - 1) })
	}
	root := gen(2 + r.Intn(7))
	if idx < 64 {
		c.Begin("random tree")
	}
	d := ast.Dump(root)
	if len(childSlots(root)) > 0 {
		c.Distinct(d)
	}
	c10CheckTree(c, root, clip(d, 600))
	if c.WantSample() {
		c.Sample(map[string]interface{}{"tree_dump": clip(strings.Join(strings.Fields(d), " "), 300)})
	}
}

type identPatcher struct {
	name  string
	value int
	n     int
}

func (p *identPatcher) Enter(*ast.Node) {}
func (p *identPatcher) Exit(n *ast.Node) {
	if id, ok := (*n).(*ast.IdentifierNode); ok && id.Value == p.name {
		ast.Patch(n, &ast.IntegerNode{Value: p.value})
		p.n++
	}
}

// substitute returns a copy of t with identifier name replaced by Int(v), and
// the number of occurrences.
func substitute(t *term.Term, name string, v int) (*term.Term, int) {
	if t == nil {
		return nil, 0
	}
	if t.K == term.KIdent && t.Op == name {
		return term.Int(v), 1
	}
	cp := *t
	cp.Sub = make([]*term.Term, len(t.Sub))
	n := 0
	for i, s := range t.Sub {
		var k int
		cp.Sub[i], k = substitute(s, name, v)
		n += k
	}
	return &cp, n
}

// retypingCall reports calls whose parameters retype integer literals.
var retypingCalls = map[string]bool{"FnF": true, "Half": true, "FnF32": true, "FnU8": true, "FnI64": true}

func c10PatchCompile(c *runner.Ctx, idx uint64) {
	r := c.R
	g := term.NewGen(r, false)
	var t *term.Term
	func() {
		defer func() {
			if rec := recover(); rec != nil {
				c.Inconclusive(fmt.Sprint(rec))
			}
		}()
		t = g.Top(8 + r.Intn(40))
	}()
	if t == nil {
		return
	}
	src := term.Print(t, term.PrintOpts{})
	c.Begin(src)
	styles, seeds := EnvStyles(r, 3)

	// (1) user Patch replacing identifier "C" by 5 == textual substitution
	sub, occ := substitute(t, "C", 5)
	if occ > 0 {
		subSrc := term.Print(sub, term.PrintOpts{})
		for _, opt := range []bool{true, false} {
			ip := &identPatcher{name: "C", value: 5}
			p1, co1 := SafeCompile(src, expr.Env(envs.Env{}), expr.Optimize(opt), expr.Patch(ip))
			p2, co2 := SafeCompile(subSrc, expr.Env(envs.Env{}), expr.Optimize(opt))
			c.Eval(2)
			if co1.Panic != nil || co2.Panic != nil {
				c.Violate("patch-compile-panic", fmt.Sprint(co1.Panic, co2.Panic), map[string]interface{}{"source": src})
				continue
			}
			if (co1.Err != nil) != (co2.Err != nil) {
				c.Violate("patch-compile-verdict", fmt.Sprintf("patched: %s, substituted: %s", co1, co2), map[string]interface{}{"source": src, "substituted": subSrc, "optimize": opt})
				continue
			}
			if co1.Err != nil {
				continue
			}
			for i := range styles {
				e := envs.New(&envs.Log{})
				envs.Fill(e, styles[i], runner.NewRng(seeds[i]))
				o1 := SafeRun(p1, *e)
				o2 := SafeRun(p2, *e)
				c.Eval(2)
				c.Count("patched_programs_compared", 1)
				if o1.Failed() != o2.Failed() || (!o1.Failed() && mon.Canon(o1.Val) != mon.Canon(o2.Val)) {
					c.Violate("patch-effect", fmt.Sprintf("program patched by a visitor returns %s, the textually substituted program %s", o1, o2),
						map[string]interface{}{"source": src, "substituted": subSrc, "optimize": opt, "occurrences": occ, "env": envBrief(e)})
					break
				}
			}
			c.Distinct("patch|" + src)
		}
	}

	// (1b) user Patch replacing a string literal (also as a literal pattern of
	// matches) == textual substitution
	var lits []string
	t.Walk(func(x *term.Term) {
		if x != nil && x.K == term.KStr {
			lits = append(lits, x.Str)
		}
	})
	if len(lits) > 0 {
		from := lits[r.Intn(len(lits))]
		to := r.Pick([]string{"zz$", "b", "^.o", ""})
		if subS, occS := substituteStr(t, from, to); occS > 0 && from != to {
			subSrc := term.Print(subS, term.PrintOpts{})
			sp := &stringPatcher{from: from, to: to}
			p1, co1 := SafeCompile(src, expr.Env(envs.Env{}), expr.Patch(sp))
			p2, co2 := SafeCompile(subSrc, expr.Env(envs.Env{}))
			c.Eval(2)
			if co1.Panic != nil || co2.Panic != nil {
				c.Violate("patch-compile-panic", fmt.Sprint(co1.Panic, co2.Panic), map[string]interface{}{"source": src})
			} else if (co1.Err != nil) != (co2.Err != nil) {
				c.Violate("patch-compile-verdict", fmt.Sprintf("patched: %s, substituted: %s", co1, co2), map[string]interface{}{"source": src, "substituted": subSrc})
			} else if co1.Err == nil {
				for i := range styles {
					e := envs.New(&envs.Log{})
					envs.Fill(e, styles[i], runner.NewRng(seeds[i]))
					o1, o2 := SafeRun(p1, *e), SafeRun(p2, *e)
					c.Eval(2)
					c.Count("patched_programs_compared", 1)
					if o1.Failed() != o2.Failed() || (!o1.Failed() && mon.Canon(o1.Val) != mon.Canon(o2.Val)) {
						c.Violate("patch-effect:string-literal", fmt.Sprintf("program whose string literal %q was patched to %q returns %s, the textually substituted program %s", from, to, o1, o2),
							map[string]interface{}{"source": src, "substituted": subSrc, "from": from, "to": to, "env": envBrief(e)})
						break
					}
				}
			}
		}
	}

	// (2) a constant sum planted in an int-typed slot must come out folded
	var cands []*term.Term
	var collect func(x *term.Term, blocked bool)
	collect = func(x *term.Term, blocked bool) {
		if x == nil {
			return
		}
		if !blocked && x.T == term.IntT && x.K != term.KInt {
			cands = append(cands, x)
		}
		b := blocked || (x.K == term.KCall && retypingCalls[x.Op])
		for _, s := range x.Sub {
			collect(s, b)
		}
	}
	collect(t, false)
	if len(cands) > 0 {
		target := cands[r.Intn(len(cands))]
		planted := replaceNode(t, target, func() *term.Term {
			p, _ := term.Binary(g.Sc, "+", term.Int(20470), term.Int(22519))
			return p
		})
		psrc := term.Print(planted, term.PrintOpts{})
		p, co := SafeCompile(psrc, expr.Env(envs.Env{}))
		c.Eval(1)
		if !co.Failed() && p != nil {
			has := func(v int) bool {
				for _, k := range p.Constants {
					if iv, ok := k.(int); ok && iv == v {
						return true
					}
				}
				return false
			}
			// the planted sum may itself be folded further into a larger
			// constant; what must not remain is the unfolded pair.
			if has(20470) && has(22519) {
				c.Violate("optimization-not-applied:"+slotOf(planted, t, target), "a constant sum planted in an int-typed position was not folded",
					map[string]interface{}{"source": psrc, "position": slotOf(planted, t, target)})
			} else {
				c.Count("planted_constants_folded", 1)
				c.SetAdd("fold_positions", slotOf(planted, t, target))
			}
		}
	}
	if c.WantSample() {
		c.Sample(map[string]interface{}{"source": src, "occurrences_of_C": occ})
	}
}

// replaceNode returns a copy of t in which the node target is replaced by mk().
func replaceNode(t, target *term.Term, mk func() *term.Term) *term.Term {
	if t == nil {
		return nil
	}
	if t == target {
		return mk()
	}
	cp := *t
	cp.Sub = make([]*term.Term, len(t.Sub))
	for i, s := range t.Sub {
		cp.Sub[i] = replaceNode(s, target, mk)
	}
	return &cp
}

// slotOf names the parent kind and slot index of target in t.
func slotOf(planted, t, target *term.Term) string {
	res := "root"
	var rec func(x *term.Term)
	rec = func(x *term.Term) {
		if x == nil {
			return
		}
		for i, s := range x.Sub {
			if s == target {
				res = fmt.Sprintf("%s[%d]", opOfKind(x), i)
			}
			rec(s)
		}
	}
	rec(t)
	return res
}

func opOfKind(x *term.Term) string {
	if x.K == term.KBuiltin || x.K == term.KCall {
		return x.K.String()
	}
	return x.K.String()
}

// c10ParsedTree walks trees produced by the parser itself (every syntactic
// form, incl. the a ?: b form and literal-pattern matches).
func c10ParsedTree(c *runner.Ctx, idx uint64) {
	g := &c11Gen{r: c.R}
	t := g.gen(1 + c.R.Intn(7))
	src := term.Print(t, term.PrintOpts{})
	c.Begin(src)
	tree, po := safeParse(src)
	c.Eval(1)
	if po.Failed() || tree == nil {
		return
	}
	c.Count("parsed_trees_walked", 1)
	c.Distinct("parsed|" + src)
	c10CheckTree(c, tree.Node, src)
}

type stringPatcher struct {
	from, to string
	n        int
}

func (p *stringPatcher) Enter(*ast.Node) {}
func (p *stringPatcher) Exit(n *ast.Node) {
	if s, ok := (*n).(*ast.StringNode); ok && s.Value == p.from {
		ast.Patch(n, &ast.StringNode{Value: p.to})
		p.n++
	}
}

// substituteStr returns a copy of t with string literal from replaced by to.
func substituteStr(t *term.Term, from, to string) (*term.Term, int) {
	if t == nil {
		return nil, 0
	}
	if t.K == term.KStr && t.Str == from {
		return term.Str(to), 1
	}
	cp := *t
	cp.Sub = make([]*term.Term, len(t.Sub))
	n := 0
	if t.K == term.KMap {
		// map keys are string nodes of the parsed tree as well
		cp.Keys = append([]string{}, t.Keys...)
		for i, k := range cp.Keys {
			if k == from {
				cp.Keys[i] = to
				n++
			}
		}
	}
	for i, s := range t.Sub {
		var k int
		cp.Sub[i], k = substituteStr(s, from, to)
		n += k
	}
	return &cp, n
}

// sharedByElvis reports whether n is both Cond and Exp1 of a conditional.
func sharedByElvis(root ast.Node, n ast.Node) bool {
	found := false
	var rec func(x ast.Node)
	rec = func(x ast.Node) {
		if x == nil || found {
			return
		}
		if c, ok := x.(*ast.ConditionalNode); ok && c.Cond == c.Exp1 && contains1(c.Cond, n) {
			found = true
			return
		}
		for _, s := range childSlots(x) {
			rec(*s)
		}
	}
	rec(root)
	return found
}

// contains1 reports whether n is x or a descendant of x.
func contains1(x, n ast.Node) bool {
	if x == n {
		return true
	}
	for _, s := range childSlots(x) {
		if contains1(*s, n) {
			return true
		}
	}
	return false
}
