package checks

import (
	"fmt"
	"sync"

	"github.com/antonmedv/expr"

	"verif/internal/runner"
)

// Second concurrent scenario of C08: an environment passed by pointer whose
// embedded struct pointer is nil (reading a promoted field must not write into
// the environment), and option values built from one caller-owned slice with
// spare capacity shared by concurrent Compile calls.

type C08Base struct {
	Limit int
	Tag   string
}

type C08V struct{ N int }

type C08Emb struct {
	*C08Base
	ID   int
	A, B C08V
	Sum  func(a, b C08V) C08V
	MaxI func(a, b int) int
	MinI func(a, b int) int
}

func newC08Emb(id int) *C08Emb {
	return &C08Emb{ID: id, A: C08V{1}, B: C08V{3},
		Sum: func(a, b C08V) C08V { return C08V{a.N + b.N} },
		MaxI: func(a, b int) int {
			if a > b {
				return a
			}
			return b
		},
		MinI: func(a, b int) int {
			if a < b {
				return a
			}
			return b
		}}
}

func c08Extra(c *runner.Ctx, r *runner.Rng, N int) {
	c.Begin(fmt.Sprintf("nil embedded pointer and shared option slice, %d goroutines", N))
	shared := newC08Emb(7)
	srcs := []string{"ID", "ID + 1", "Limit", "Tag", "ID == 7 ? C08Base : nil", "C08Base == nil", "Limit > 0 or ID > 0", "[ID, Limit]", "C08Base?.Limit", "A.N + B.N"}
	type prog struct {
		src string
		run func(env interface{}) string
	}
	var progs []prog
	for _, s := range srcs {
		p, co := SafeCompile(s, expr.Env(&C08Emb{}))
		c.Eval(1)
		if co.Panic != nil {
			c.Violate("compile-panic", fmt.Sprint(co.Panic), map[string]interface{}{"source": s})
			continue
		}
		if co.Err != nil {
			continue
		}
		pp := p
		progs = append(progs, prog{s, func(env interface{}) string { return c08Outcome(SafeRun(pp, env)) }})
	}
	// caller-owned slice with spare capacity: the first option value is shared
	names := make([]string, 1, 4)
	names[0] = "Sum"
	first := expr.Operator("+", names[:1]...)
	M := 600 / N
	if M < 8 {
		M = 8
	}
	type obs struct{ what, got, want string }
	results := make([][]obs, N)
	var wg sync.WaitGroup
	start := make(chan struct{})
	for g := 0; g < N; g++ {
		wg.Add(1)
		go func(g int, seed uint64) {
			defer wg.Done()
			rr := runner.NewRng(seed, uint64(g))
			<-start
			for i := 0; i < M; i++ {
				if rr.Bool() {
					pr := progs[rr.Intn(len(progs))]
					results[g] = append(results[g], obs{what: pr.src, got: pr.run(shared)})
					continue
				}
				// Compile `ID + 3` with the shared first overload and an own
				// second one; the second one decides the result
				second, want := "MaxI", "int:7"
				if (g+i)%2 == 0 {
					second, want = "MinI", "int:3"
				}
				p, co := SafeCompile("[ID + 3, A + B]", expr.Env(&C08Emb{}), first, expr.Operator("+", second))
				got := "rejected"
				if !co.Failed() && p != nil {
					got = c08Outcome(SafeRun(p, newC08Emb(7)))
				} else if co.Panic != nil {
					got = fmt.Sprintf("PANIC %v", co.Panic)
				}
				results[g] = append(results[g], obs{what: "overloads Sum+" + second, got: got, want: "[" + want + ",C08V{N:int:4}]"})
			}
		}(g, r.U64())
	}
	close(start)
	wg.Wait()
	// what every program returns alone, on an environment nobody has run on
	alone := map[string]string{}
	for _, pr := range progs {
		alone[pr.src] = pr.run(newC08Emb(7))
		c.Eval(1)
	}
	n := 0
	for g := range results {
		for _, o := range results[g] {
			n++
			want := o.want
			if want == "" {
				want = alone[o.what]
			}
			if o.got != want {
				c.Violate("concurrent-result-differs:shared-pointer-environment-or-option-slice", fmt.Sprintf("%s: concurrent outcome %s, alone %s", o.what, clip(o.got, 200), clip(want, 200)),
					map[string]interface{}{"case": o.what, "concurrent": o.got, "alone": want, "goroutines": N})
				break
			}
		}
	}
	c.Eval(n)
	c.Count("extra_scenario_operations", int64(n))
	if shared.C08Base != nil {
		c.Violate("environment-modified-by-run", "a run wrote the nil embedded pointer of the environment it was given", map[string]interface{}{"environment": "*C08Emb with nil *C08Base"})
	}
	if names[0] != "Sum" || len(names) != 1 || fmt.Sprint(names[:cap(names)]) != "[Sum   ]" {
		c.Violate("option-argument-slice-modified", fmt.Sprintf("Compile wrote into the caller's slice passed to expr.Operator: %q", names[:cap(names)]), map[string]interface{}{"slice": fmt.Sprintf("%q", names[:cap(names)])})
	}
}
