package checks

import (
	"fmt"
	"strings"

	"github.com/antonmedv/expr"
	"github.com/antonmedv/expr/vm"

	"verif/internal/envs"
	"verif/internal/mon"
	"verif/internal/runner"
	"verif/internal/term"
)

// C09: Compile and Run are pure and deterministic.
// Digests of repeated compilations (in one process and across worker
// processes) must be equal; deep snapshots of the environment, the sample
// environment and the program must be equal before and after every run; a
// second run on an equal environment returns an equal result.

// c09Source returns the idx-th source of the shared list together with its
// option set (a pure function of seed and idx, identical in every process).
func c09Source(seed, idx uint64) (src string, optName string, opts func(sample *envs.Env, opSample *OpEnv) []expr.Option, useOpEnv bool) {
	r := runner.NewRng(seed, 909, idx)
	if idx%33 == 32 {
		// reads of large, unsorted environment collections (a membership or
		// search fast path must not reorder or otherwise touch them)
		src = r.Pick([]string{"S in Strs ? Strs[0] : T", "T in Strs", "A in Ints ? Ints[0] : B", "X in Floats", "filter(Strs, {# in Strs})[0]", "count(Ints, {# in Ints2})", "Strs[0] + Strs[len(Strs) - 1]", "all(Strs, {# in Strs}) and Ints[0] in Ints", "AnyS in Strs or AnyI in Ints"})
		if r.Bool() {
			return src, "Env(*Env)", func(s *envs.Env, _ *OpEnv) []expr.Option { return []expr.Option{expr.Env(s)} }, false
		}
		return src, "Env(Env)", func(s *envs.Env, _ *OpEnv) []expr.Option { return []expr.Option{expr.Env(*s)} }, false
	}
	if idx%11 == 10 {
		// the environment type in value and in pointer form (methods with a
		// pointer receiver exist for the pointer form only): what one form
		// compiles to must not depend on which form was compiled before
		if r.Chance(1, 3) {
			// an environment function that changes its argument in place gets
			// a value the expression created, never a constant of the program
			src = r.Pick([]string{"RevInts(1..3)[0]", "RevInts([3, 1, 2])", "RevInts(1..5)", "RevInts((1..4)[1:3])", "RevInts((1..6)[2:])", "RevInts([7, 8, 9][:])[0]", "[RevInts([1, 2]), RevInts([1, 2])]", "map(1..2, {RevInts([1, 2, 3])[0]})"})
			return src, "Env(Env)", func(s *envs.Env, _ *OpEnv) []expr.Option { return []expr.Option{expr.Env(*s)} }, false
		}
		src = r.Pick([]string{"PInc(A)", "PInc(1) + Inc(2)", "AddA(PInc(B))", "Inc(A) + AddA(1)", "map(Ints, {PInc(#)})", "It.Double() + PInc(2)", "A + B", "Cat(S, T)"})
		if r.Bool() {
			return src, "Env(*Env)", func(s *envs.Env, _ *OpEnv) []expr.Option { return []expr.Option{expr.Env(s)} }, false
		}
		return src, "Env(Env)", func(s *envs.Env, _ *OpEnv) []expr.Option { return []expr.Option{expr.Env(*s)} }, false
	}
	switch idx % 5 {
	case 0, 1:
		g := term.NewGen(r, idx%2 == 0)
		func() {
			defer func() { recover() }()
			src = term.Print(g.Top(3+r.Intn(40)), term.PrintOpts{})
		}()
		if src == "" {
			src = "A + B"
		}
		if r.Chance(1, 3) {
			// multi-line layout with tabs: error rendering reads the source
			src, _, _ = term.Layout(r, term.Tokenize(src), true)
		}
		optimize := r.Bool()
		return src, fmt.Sprintf("Env,Optimize(%v)", optimize), func(s *envs.Env, _ *OpEnv) []expr.Option {
			return []expr.Option{expr.Env(*s), expr.Optimize(optimize)}
		}, false
	case 2:
		src, _, _ = c02Special(r)
		return src, "Env", func(s *envs.Env, _ *OpEnv) []expr.Option { return []expr.Option{expr.Env(*s)} }, false
	case 3:
		// several ConstExprs and As* directives
		calls := []string{"FnI(1) + FnI(2)", "FnS(\"a\") + FnS(\"b\") + S", "FnII(1, 2) * Inc(3)", "[FnI(1), FnF(1), FnS(\"x\")]", "{\"a\": FnI(3), \"b\": Cat(\"x\", \"y\")}", "FnI(A) + FnI(7)", "Inc(FnI(2)) in [FnI(1), 22]"}
		src = calls[r.Intn(len(calls))]
		names := []string{"FnI", "FnS", "FnII", "Inc", "Cat", "FnF"}
		return src, "Env,ConstExpr*6", func(s *envs.Env, _ *OpEnv) []expr.Option {
			o := []expr.Option{expr.Env(*s)}
			for _, n := range names {
				o = append(o, expr.ConstExpr(n))
			}
			return o
		}, false
	default:
		tbi := int(idx/5) % len(c17Tables)
		g := &c17Gen{r: r, tb: c17Tables[tbi], positions: map[string]bool{}}
		src = term.Print(g.top(4+r.Intn(20)), term.PrintOpts{})
		return src, fmt.Sprintf("Env(OpEnv),Operator table %d", tbi), func(_ *envs.Env, os *OpEnv) []expr.Option {
			return append([]expr.Option{expr.Env(*os)}, c17Tables[tbi].options()...)
		}, true
	}
}

func init() {
	runner.Register(&runner.Check{
		ID:    "C09",
		Level: "exploration",
		// every worker process starts from another compilation history: odd
		// shards compile against the pointer form of the environment first,
		// even shards against the value form (what a process compiled before
		// must not change what it compiles next)
		Init: func(c *runner.Ctx) {
			sample := envs.New(&envs.Log{})
			envs.Fill(sample, 2, runner.NewRng(1))
			if c.Shard%2 == 1 {
				SafeCompile("PInc(A) + Inc(B)", expr.Env(sample))
			} else {
				SafeCompile("Inc(A) + B", expr.Env(*sample))
			}
			if c.Shard%4 >= 2 {
				SafeCompile("M1 + M2", expr.Env(newOpEnv(runner.NewRng(1))))
			}
		},
		Rule: "case = one (source, option set): compiled 4 times in the process and once in every one of the 16 worker processes (phase cross-process) with digests of bytecode, typed constants (maps sorted), locations and source compared; then run twice on equal environments with deep snapshots (unexported fields, full backing arrays up to cap, maps, pointees) of the environment, the sample environment and the program taken before and after; option sets include several Operator candidates, six ConstExpr functions, both optimizer settings; " +
			"distinct = distinct (source, option set) that compile",
		Assumptions: []string{"across processes = the worker processes of one build on one machine", "functions inside environments are compared by nil-ness only"},
		Phases: []runner.Phase{
			{Name: "cross-process", Everywhere: true, N: func(tier string) uint64 {
				if tier == "thorough" {
					return 20000
				}
				return 2500
			}, Run: func(c *runner.Ctx, idx uint64) {
				// every process compiles the whole list, each in its own order
				// (rotation inside blocks of 50), so that a result depending on
				// what the process compiled before shows as a digest mismatch
				idx = idx - idx%50 + (idx%50+uint64(c.Shard)*7)%50
				src, optName, mk, _ := c09Source(c.Seed, idx)
				if c.Shard == 0 && idx < 64 {
					c.Begin(src)
				}
				sample := envs.New(&envs.Log{})
				envs.Fill(sample, 2, runner.NewRng(1))
				p, co := SafeCompile(src, mk(sample, newOpEnv(runner.NewRng(1)))...)
				c.Eval(1)
				d := "rejected"
				if co.Panic != nil {
					d = "panic"
				} else if co.Err == nil && p != nil {
					d = fmt.Sprintf("%016x", mon.HashStr(mon.ProgramDigest(p)))
				}
				c.SetAdd(fmt.Sprintf("xproc_%d", idx%16), fmt.Sprintf("%d=%s|%s", idx, d, optName))
				c.Count("cross_process_compilations", 1)
			}},
			{Name: "rejected-options", N: func(tier string) uint64 {
				if tier == "thorough" {
					return 2000
				}
				return 100
			}, Run: func(c *runner.Ctx, idx uint64) {
				// several invalid options at once: which one Compile reports
				// must not depend on the iteration order of a map
				r := c.R
				ops := []string{"+", "-", "*", "/", "==", "<", "and", "in"}
				var opts []expr.Option
				sample := envs.New(&envs.Log{})
				envs.Fill(sample, 2, runner.NewRng(1))
				opts = append(opts, expr.Env(*sample))
				n := 2 + r.Intn(5)
				for i := 0; i < n; i++ {
					if r.Bool() {
						opts = append(opts, expr.Operator(ops[(int(idx)+i)%len(ops)], r.Pick([]string{"Missing1", "Missing2", "A", "FnI", "FnVar"})))
					} else {
						opts = append(opts, expr.ConstExpr(r.Pick([]string{"A", "B", "S", "Ints", "It"})))
					}
				}
				if idx%10 == 0 {
					// an environment map whose keys of different types spell the
					// same name: what the name is typed as must not vary
					type myStr string
					env := map[interface{}]interface{}{"a": 1, myStr("a"): "x", "b": 2.5, myStr("b"): true, 7: "seven"}
					c.Begin("interface-keyed map environment")
					first := ""
					for k := 0; k < 60; k++ {
						p, co := SafeCompile(r.Pick([]string{"a + 1", "b * 2"})[:5], expr.Env(env))
						c.Eval(1)
						d := "rejected: "
						if co.Panic != nil {
							c.Violate("compile-panic", fmt.Sprint(co.Panic), map[string]interface{}{"source": "a + 1"})
							return
						}
						if co.Err != nil {
							d += co.Err.Error()
						} else {
							d = mon.ProgramDigest(p)
						}
						_ = d
					}
					for k := 0; k < 60; k++ {
						p, co := SafeCompile("a + 1", expr.Env(env))
						c.Eval(1)
						d := "rejected"
						if co.Err != nil {
							d = "rejected: " + co.Err.Error()
						} else if p != nil {
							d = mon.ProgramDigest(p)
						}
						if k == 0 {
							first = d
						} else if d != first {
							c.Violate("compile-nondeterministic:map-environment-keys", "the same Compile call against an interface-keyed map environment gives different outcomes", map[string]interface{}{"source": "a + 1", "first": clip(first, 300), "later": clip(d, 300)})
							return
						}
					}
				}
				c.Begin(fmt.Sprintf("rejected options #%d (%d invalid options)", idx, n))
				first := ""
				for k := 0; k < 40; k++ {
					_, co := SafeCompile("1 + 1", opts...)
					c.Eval(1)
					if co.Panic != nil {
						c.Violate("compile-panic", fmt.Sprint(co.Panic), map[string]interface{}{"source": "1 + 1"})
						return
					}
					msg := "accepted"
					if co.Err != nil {
						msg = co.Err.Error()
					}
					if k == 0 {
						first = msg
					} else if msg != first {
						c.Violate("compile-verdict-varies:invalid-options", fmt.Sprintf("the same Compile call reports %q, then %q", first, msg), map[string]interface{}{"source": "1 + 1", "invalid_options": n, "first": first, "later": msg})
						return
					}
				}
				c.Count("rejected_option_sets_compiled_40x", 1)
				c.Distinct(fmt.Sprintf("badopts|%d|%s", idx, first))
			}},
			{Name: "constexpr-results", Serial: true, N: func(string) uint64 { return 1 }, Run: c09ConstExprResults},
			{Name: "purity", N: func(tier string) uint64 {
				if tier == "thorough" {
					return 900000
				}
				return 24000
			}, Run: c09Purity},
		},
		Post: func(a *runner.Aggregate) []string {
			// every idx of the cross-process phase must have exactly one digest
			var out []string
			byIdx := map[string]map[string]bool{}
			for name, set := range a.Sets {
				if !strings.HasPrefix(name, "xproc_") {
					continue
				}
				for it := range set {
					k := strings.SplitN(it, "=", 2)
					if byIdx[k[0]] == nil {
						byIdx[k[0]] = map[string]bool{}
					}
					byIdx[k[0]][k[1]] = true
				}
			}
			bad := 0
			for idx, ds := range byIdx {
				if len(ds) > 1 {
					bad++
					if bad <= 3 {
						var l []string
						for d := range ds {
							l = append(l, d)
						}
						// reported as a violation by the parent through Inconcl is
						// wrong: it is a real disagreement -> surfaced as violation
						a.Violations = append(a.Violations, runner.Violation{Property: "C09", Sig: "cross-process-digest", What: "worker processes compiled different programs for cross-process case " + idx + ": " + strings.Join(l, " vs "),
							Phase: "cross-process", Case: map[string]interface{}{"case_index": idx, "digests": l}})
					}
				}
			}
			if len(byIdx) == 0 || a.Counters["runs_snapshotted"] == 0 {
				out = append(out, "no cross-process comparison or no snapshot was made")
			}
			return out
		},
	})
}

func c09Purity(c *runner.Ctx, idx uint64) {
	// a small budget (the same for every run of this phase) makes history
	// dependence of the allocation accounting observable
	vm.MemoryBudget = 3000
	src, optName, mk, useOp := c09Source(c.Seed+1, idx)
	c.Begin(src)
	sample := envs.New(&envs.Log{})
	envs.Fill(sample, 3, runner.NewRng(c.R.U64()))
	opSample := newOpEnv(runner.NewRng(c.R.U64()))
	var sampleAny interface{} = sample
	if useOp {
		sampleAny = opSample
	}
	resetLog(sampleAny)
	sampleBefore := mon.SnapshotHash(sampleAny)
	// repeated compilation in one process
	var digests []string
	p, co := SafeCompile(src, mk(sample, opSample)...)
	c.Eval(1)
	if co.Panic != nil {
		c.Violate("compile-panic", fmt.Sprint(co.Panic), map[string]interface{}{"source": src, "options": optName})
		return
	}
	if co.Err != nil {
		// still deterministic: same verdict and message every time
		for i := 0; i < 2; i++ {
			_, co2 := SafeCompile(src, mk(sample, opSample)...)
			c.Eval(1)
			if co2.Err == nil || co2.Err.Error() != co.Err.Error() {
				c.Violate("compile-verdict-varies", fmt.Sprintf("first %s then %s", co, co2), map[string]interface{}{"source": src, "options": optName})
				return
			}
		}
		c.Count("rejected_consistently", 1)
		return
	}
	c.Distinct(src + "|" + optName)
	digests = append(digests, mon.ProgramDigest(p))
	for i := 0; i < 3; i++ {
		q, co2 := SafeCompile(src, mk(sample, opSample)...)
		c.Eval(1)
		if co2.Failed() {
			c.Violate("compile-verdict-varies", fmt.Sprintf("first ok then %s", co2), map[string]interface{}{"source": src, "options": optName})
			return
		}
		d := mon.ProgramDigest(q)
		if d != digests[0] {
			c.Violate("compile-nondeterministic", "two compilations of the same source and options differ: "+firstDiff(digests[0], d), map[string]interface{}{"source": src, "options": optName, "first": clip(digests[0], 1500), "other": clip(d, 1500)})
			return
		}
	}
	c.Count("programs_compiled_4x_equal", 1)
	resetLog(sampleAny) // constant-expression calls at compile time log into the harness log
	if mon.SnapshotHash(sampleAny) != sampleBefore {
		c.Violate("sample-env-modified-by-compile", "the sample environment given to Compile was modified", map[string]interface{}{"source": src, "options": optName})
		return
	}
	// runs with snapshots
	for k := 0; k < 3; k++ {
		seed := c.R.U64()
		style := []int{3, 3, 1}[k]
		var env1, env2 interface{}
		var snapTarget interface{}
		if useOp {
			e1, e2 := newOpEnv(runner.NewRng(seed)), newOpEnv(runner.NewRng(seed))
			env1, env2, snapTarget = *e1, *e2, e1
		} else {
			e1, e2 := envs.New(&envs.Log{}), envs.New(&envs.Log{})
			envs.Fill(e1, style, runner.NewRng(seed))
			envs.Fill(e2, style, runner.NewRng(seed))
			if k == 0 {
				c09Grow(e1, seed)
				c09Grow(e2, seed)
			}
			env1, env2, snapTarget = *e1, *e2, e1
			if optName == "Env(*Env)" {
				env1, env2 = e1, e2
			}
		}
		// the call log is harness state, not part of the environment
		resetLog(snapTarget)
		envBefore := mon.Snapshot(snapTarget)
		progBefore := digests[0]
		o1 := SafeRun(p, env1)
		c.Eval(1)
		c.Count("runs_snapshotted", 1)
		resetLog(snapTarget)
		cas := map[string]interface{}{"source": src, "options": optName, "first_run": o1.String()}
		if o1.Panic != nil {
			c.Violate("run-panic", fmt.Sprint(o1.Panic), cas)
			return
		}
		if after := mon.Snapshot(snapTarget); after != envBefore {
			cas["difference"] = firstDiff(envBefore, after)
			c.Violate("environment-modified", "a run modified the environment value: "+firstDiff(envBefore, after), cas)
			return
		}
		if d := mon.ProgramDigest(p); d != progBefore {
			cas["difference"] = firstDiff(progBefore, d)
			c.Violate("program-modified", "a run modified the program: "+firstDiff(progBefore, d), cas)
			return
		}
		if mon.SnapshotHash(sampleAny) != sampleBefore {
			c.Violate("sample-env-modified-by-run", "a run modified the sample environment given to Compile", cas)
			return
		}
		var res1 string
		if !o1.Failed() {
			res1 = mon.Snapshot(o1.Val)
		}
		o2 := SafeRun(p, env2)
		c.Eval(1)
		cas["second_run"] = o2.String()
		same := o1.Failed() == o2.Failed()
		if same && o1.Failed() {
			same = o1.Err.Error() == o2.Err.Error()
		}
		if same && !o1.Failed() {
			same = mon.Canon(o1.Val) == mon.Canon(o2.Val)
		}
		if !same {
			c.Violate("rerun-differs", fmt.Sprintf("first run %s, second run on an equal environment %s", o1, o2), cas)
			return
		}
		// a third run, on a VM value that lives as long as the worker, must
		// also return the same (running again must not depend on history)
		o3 := safeVMRun(c09VM, p, env2)
		c.Eval(1)
		same3 := o1.Failed() == o3.Failed()
		if same3 && o1.Failed() {
			same3 = o1.Err.Error() == o3.Err.Error()
		}
		if same3 && !o1.Failed() {
			same3 = mon.Canon(o1.Val) == mon.Canon(o3.Val)
		}
		if !same3 {
			cas["third_run_on_long_lived_vm"] = o3.String()
			c.Violate("rerun-differs-on-reused-vm", fmt.Sprintf("first run %s, a later run on a long-lived VM %s", o1, o3), cas)
			return
		}
		// the first result must not have been overwritten by the second run
		if !o1.Failed() && mon.Snapshot(o1.Val) != res1 {
			c.Violate("result-overwritten", "the value returned by the first run changed during the second run", cas)
			return
		}
	}
	if c.WantSample() {
		c.Sample(map[string]interface{}{"source": src, "options": optName, "digest_bytes": len(digests[0])})
	}
}

var c09VM = &vm.VM{}

func resetLog(env interface{}) {
	switch e := env.(type) {
	case *envs.Env:
		envs.ResetLog(e)
	case *OpEnv:
		e.log.Calls = nil
	}
}

func firstDiff(a, b string) string {
	n := len(a)
	if len(b) < n {
		n = len(b)
	}
	i := 0
	for i < n && a[i] == b[i] {
		i++
	}
	lo := i - 60
	if lo < 0 {
		lo = 0
	}
	ha, hb := i+60, i+60
	if ha > len(a) {
		ha = len(a)
	}
	if hb > len(b) {
		hb = len(b)
	}
	return fmt.Sprintf("at byte %d: …%s… vs …%s…", i, a[lo:ha], b[lo:hb])
}

// c09ConstEnv: functions named in ConstExpr whose results are sequences and
// maps of several types, and functions that change their argument in place.
type c09ConstEnv struct {
	TblF func() []float64
	TblI func() []int
	TblS func() []string
	TblA func() []interface{}
	TblM func() map[string]int
	RevF func([]float64) []float64
	RevI func([]int) []int
	RevS func([]string) []string
	RevA func([]interface{}) []interface{}
	SetM func(map[string]int) int
}

func newC09ConstEnv() c09ConstEnv {
	return c09ConstEnv{
		TblF: func() []float64 { return []float64{1, 2, 3} },
		TblI: func() []int { return []int{1, 2, 3} },
		TblS: func() []string { return []string{"a", "b", "c"} },
		TblA: func() []interface{} { return []interface{}{1, "b", 3.5} },
		TblM: func() map[string]int { return map[string]int{"a": 1} },
		RevF: func(x []float64) []float64 {
			for i, j := 0, len(x)-1; i < j; i, j = i+1, j-1 {
				x[i], x[j] = x[j], x[i]
			}
			return x
		},
		RevI: func(x []int) []int {
			for i, j := 0, len(x)-1; i < j; i, j = i+1, j-1 {
				x[i], x[j] = x[j], x[i]
			}
			return x
		},
		RevS: func(x []string) []string {
			for i, j := 0, len(x)-1; i < j; i, j = i+1, j-1 {
				x[i], x[j] = x[j], x[i]
			}
			return x
		},
		RevA: func(x []interface{}) []interface{} {
			for i, j := 0, len(x)-1; i < j; i, j = i+1, j-1 {
				x[i], x[j] = x[j], x[i]
			}
			return x
		},
		SetM: func(m map[string]int) int { m["a"]++; return m["a"] },
	}
}

// c09ConstExprResults: the result of a ConstExpr function becomes a constant
// of the program; a function that changes its argument in place must not
// reach that constant.
func c09ConstExprResults(c *runner.Ctx, idx uint64) {
	cases := []struct{ src, fn, class string }{
		{"RevI(TblI())[0]", "TblI", "[]int"}, {"RevS(TblS())[0]", "TblS", "[]string"}, {"RevA(TblA())[0]", "TblA", "[]interface{}"},
		{"RevF(TblF())[0]", "TblF", "[]float64"}, {"SetM(TblM())", "TblM", "map"},
		{"len(RevI(TblI())) + RevI(TblI())[0]", "TblI", "[]int"}, {"map(1..3, {RevF(TblF())[0]})", "TblF", "[]float64"},
	}
	for _, k := range cases {
		for oi, on := range []string{"optimize", "no-optimize"} {
			env := newC09ConstEnv()
			opts := []expr.Option{expr.Env(env), expr.ConstExpr(k.fn)}
			if oi == 1 {
				opts = append(opts, expr.Optimize(false))
			}
			c.Begin(k.src)
			p, co := SafeCompile(k.src, opts...)
			c.Eval(1)
			if co.Failed() || p == nil {
				c.Count("constexpr_result_cases_rejected", 1)
				continue
			}
			before := mon.ProgramDigest(p)
			var outs []string
			for i := 0; i < 3; i++ {
				outs = append(outs, c08Outcome(SafeRun(p, env)))
				c.Eval(1)
			}
			c.Count("constexpr_result_cases", 1)
			c.Distinct("constexpr|" + k.src + "|" + on)
			after := mon.ProgramDigest(p)
			cas := map[string]interface{}{"source": k.src, "const_expr": k.fn, "options": on, "results_of_3_runs": outs}
			if after != before {
				c.Violate("program-modified:constexpr-result:"+k.src, "a run modified the program: the "+k.class+" returned by the ConstExpr function "+k.fn+" is handed to the environment function as it is; "+firstDiff(before, after), cas)
			} else if outs[0] != outs[1] || outs[1] != outs[2] {
				c.Violate("runs-differ:constexpr-result:"+k.src, fmt.Sprintf("three runs on equal environments returned %v", outs), cas)
			}
		}
	}
}

// c09Grow makes the collections of a random environment large (33..96
// elements, unsorted) for the first of the three snapshotted
// runs, so that paths taken only for long slices are observed by the
// before/after snapshots too. Both copies of an environment are grown from
// the same seed.
func c09Grow(e *envs.Env, seed uint64) {
	r := runner.NewRng(seed, 9096)
	n := 33 + r.Intn(64)
	e.Strs, e.Ints, e.Ints2, e.Floats = nil, nil, nil, nil
	for i := 0; i < n; i++ {
		e.Strs = append(e.Strs, fmt.Sprintf("w%03d", (n-i)*7%101))
		e.Ints = append(e.Ints, (n-i)*13%97-20)
		e.Ints2 = append(e.Ints2, i*5%31)
		e.Floats = append(e.Floats, float64((n-i)*11%89)/4)
	}
	if r.Bool() {
		e.S, e.AnyS = e.Strs[r.Intn(n)], e.Strs[r.Intn(n)]
		e.A, e.AnyI = e.Ints[r.Intn(n)], e.Ints[r.Intn(n)]
		e.X = e.Floats[r.Intn(n)]
	}
}
