package checks

import (
	"fmt"
	"strings"

	"github.com/antonmedv/expr"
	"github.com/antonmedv/expr/vm"

	"verif/internal/envs"
	"verif/internal/mon"
	"verif/internal/runner"
	"verif/internal/term"
)

// C02: the optimizer is observationally transparent.
// Differential: the same source compiled with Optimize(true)/Optimize(false)
// (and with/without ConstExpr) must agree on every environment value.

// raw term builders (no reference typing: C02 needs only the source text and
// the harness's constant folder).
func rawBin(op string, l, r *term.Term) *term.Term {
	return &term.Term{K: term.KBinary, Op: op, Sub: []*term.Term{l, r}}
}
func rawUn(op string, x *term.Term) *term.Term {
	return &term.Term{K: term.KUnary, Op: op, Sub: []*term.Term{x}}
}
func rawID(n string) *term.Term { return &term.Term{K: term.KIdent, Op: n} }
func rawCall(fn string, args ...*term.Term) *term.Term {
	return &term.Term{K: term.KCall, Op: fn, Sub: args}
}
func rawLen(x *term.Term) *term.Term {
	return &term.Term{K: term.KBuiltin, Op: "len", Sub: []*term.Term{x}}
}
func rawIndex(x, i *term.Term) *term.Term { return &term.Term{K: term.KIndex, Sub: []*term.Term{x, i}} }

func constArith(r *runner.Rng, depth int, floats bool) *term.Term {
	if depth <= 0 || r.Chance(1, 4) {
		if floats && r.Chance(1, 4) {
			return term.Float([]float64{0.5, 1.5, 2, 0.25, 10}[r.Intn(5)])
		}
		return term.Int([]int{0, 1, 2, 3, 4, 5, 7, 10, 100, 255, 256, 300, 65536, 1 << 31, 1<<62 + 1, 9223372036854775807}[r.Intn(16)])
	}
	switch r.Intn(8) {
	case 0:
		return rawUn(r.Pick([]string{"-", "+"}), constArith(r, depth-1, floats))
	case 1:
		return rawBin("**", constArith(r, depth-1, floats), term.Int(r.Intn(4)))
	default:
		return rawBin(r.Pick([]string{"+", "-", "*", "/", "%", "+", "*"}), constArith(r, depth-1, floats), constArith(r, depth-1, floats))
	}
}

var c02Lefts = []string{"A", "B", "Z", "I", "U", "U8", "U16", "U32", "U64", "I8", "I16", "I32", "I64", "F32", "F64", "X", "Y", "S", "T", "P", "AnyI", "AnyS", "AnyN", "NilIt", "It.ID", "PIt.ID", "Inc(A)", "FnI(B)", "len(Ints)", "A + 1", "Ints[0]", "MI[\"a\"]", "nil", "1", "2.0", "\"a\""}

// c02NilSafeLeft: a left operand that may be nil at run time because it ends
// in (or wraps) a nil-safe access, under the wrappers the membership rewrites
// have to look through.
func c02NilSafeLeft(r *runner.Rng, str bool) string {
	bases := []string{"NilIt?.ID", "It.Next?.ID", "PIt.Next?.Next?.ID", "MkItem(Z)?.ID", "NilIt?.Vals[0]", "It.Next?.Vals[0]", "NilIt?.Double()", "It.Next?.Plus(1)", "PIt?.ID", "It.Next?.Next.ID"}
	other := []string{"1", "A", "3", "FnI(2)"}
	if str {
		bases = []string{"NilIt?.Name", "It.Next?.Name", "MkItem(Z)?.Name", "NilIt?.Tags[0]", "NilIt?.Label()", "It.Next?.Next?.Name", "PIt?.Name"}
		other = []string{`"a"`, "S", `"b"`}
	}
	x := r.Pick(bases)
	for d := r.Intn(3); d > 0; d-- {
		switch r.Intn(6) {
		case 0:
			x = fmt.Sprintf("(%s ? %s : %s)", r.Pick([]string{"P", "Q", "true", "false"}), x, r.Pick(other))
		case 1:
			x = fmt.Sprintf("(%s ? %s : %s)", r.Pick([]string{"P", "Q", "true", "false"}), r.Pick(other), x)
		case 2:
			if !str {
				x = "+" + x
			}
		case 3:
			x = "(" + x + ")"
		case 4:
			x = fmt.Sprintf("(%s ?: %s)", x, r.Pick(other))
		default:
			x = fmt.Sprintf("(%s ? %s : %s)", r.Pick([]string{"P", "Q"}), x, x)
		}
	}
	return x
}

func c02Special(r *runner.Rng) (src string, t *term.Term, class string) {
	lit := func() string {
		switch r.Intn(3) {
		case 0:
			return fmt.Sprint(r.Intn(7))
		case 1:
			return term.QuoteStr(r.Pick([]string{"a", "b", "", "foo", "10", "世界"}))
		default:
			return r.Pick([]string{"1.5", "true", "nil", "A", "S"})
		}
	}
	switch k := r.Intn(11); k {
	case 10: // possibly-nil left operand of a membership test that is rewritten
		if r.Bool() {
			return fmt.Sprintf("%s %s [%s]", c02NilSafeLeft(r, true), r.Pick([]string{"in", "not in"}), r.Pick([]string{`"a"`, `"a", "b"`, `"", "foo", "b"`})), nil, "nilsafe-in"
		}
		right := r.Pick([]string{"[1]", "[1, 2, 3]", "[256, 3, 8]", "1..3", "0..10", "[0, 2]"})
		return fmt.Sprintf("%s %s %s", c02NilSafeLeft(r, false), r.Pick([]string{"in", "not in"}), right), nil, "nilsafe-in"
	case 0: // constant arithmetic
		t = constArith(r, 1+r.Intn(5), r.Chance(1, 3))
		return term.Print(t, term.PrintOpts{}), t, "const-arith"
	case 1: // constant arithmetic as function argument of each numeric kind
		fn := r.Pick([]string{"FnF", "FnF", "FnU8", "FnI64", "FnF32", "Half", "FnI", "FnII", "FnVar", "FnAny", "Fast"})
		a := constArith(r, 1+r.Intn(4), false)
		t = rawCall(fn, a)
		if fn == "FnII" {
			t = rawCall(fn, a, constArith(r, 2, false))
		}
		if r.Chance(1, 3) {
			t = rawBin("+", t, constArith(r, 2, false))
		}
		return term.Print(t, term.PrintOpts{}), t, "const-arith-arg"
	case 2, 3: // x in [literals]
		n := r.Intn(5)
		var el []string
		flavour := r.Intn(3)
		for i := 0; i < n; i++ {
			switch flavour {
			case 0:
				el = append(el, fmt.Sprint(r.Intn(7)))
			case 1:
				el = append(el, term.QuoteStr(r.Pick([]string{"a", "b", "", "foo", "10"})))
			default:
				el = append(el, lit())
			}
		}
		return fmt.Sprintf("%s %s [%s]", r.Pick(c02Lefts), r.Pick([]string{"in", "not in"}), strings.Join(el, ", ")), nil, "in-array"
	case 4, 5: // x in a..b
		a, b := r.Intn(7)-2, r.Intn(9)-2
		lo, hi := fmt.Sprint(a), fmt.Sprint(b)
		if a < 0 {
			lo = fmt.Sprintf("-%d", -a)
		}
		if b < 0 {
			hi = fmt.Sprintf("-%d", -b)
		}
		if r.Chance(1, 5) {
			hi = fmt.Sprintf("%d + %d", b, r.Intn(3))
		}
		return fmt.Sprintf("%s %s %s..%s", r.Pick(c02Lefts), r.Pick([]string{"in", "not in"}), lo, hi), nil, "in-range"
	case 6: // constant ranges in context
		a, b := r.Intn(6)-2, r.Intn(12)-3
		rng := fmt.Sprintf("(%d..%d)", a, b)
		if a < 0 {
			rng = fmt.Sprintf("(-%d..%d)", -a, b)
		}
		if b < 0 {
			rng = fmt.Sprintf("(%d..-%d)", a, -b)
			if a < 0 {
				rng = fmt.Sprintf("(-%d..-%d)", -a, -b)
			}
		}
		if r.Chance(1, 8) {
			// bounds whose distance overflows int
			ext := []string{"9223372036854775807", "9223372036854775806", "-9223372036854775807", "4611686018427387904", "-4611686018427387904", "0", "-2", "1"}
			rng = fmt.Sprintf("(%s..%s)", r.Pick(ext), r.Pick(ext))
		}
		forms := []string{"len(%s)", "%s[1]", "%s[A]", "map(%s, {# * 2})", "filter(%s, {# > A})", "A in %s", "%s == Ints", "%s[1:3]", "all(%s, {# > 0})", "count(%s, {# in 1..3})", "%s == [1, 2, 3]", "FnInts(%s)"}
		return fmt.Sprintf(forms[r.Intn(len(forms))], rng), nil, "const-range"
	case 7: // literal arrays in every position
		arrs := []string{"[]", "[1]", "[1, 2, 3]", `["a"]`, `["a", "b"]`, `[1, "a"]`, "[[1, 2], [3]]", "[1, 2.5]", "[A, 1]", "[1, 2, 3, 4, 5, 6, 7, 8]", `["", "a", "a"]`, "[nil]", "[true, false]"}
		a, b := r.Pick(arrs), r.Pick(arrs)
		forms := []string{"%s == %s", "%s != %s", "len(%s) + len(%s)", "%s[0] == %s[0]", "map(%s, {#}) == %s", "%s in [%s]", "FnAny(%s) == %s", "{\"k\": %s, \"j\": %s}", "[%s, %s]", "Ints == %s ? %s : nil", "any(%s, {# in %s})"}
		return fmt.Sprintf(forms[r.Intn(len(forms))], a, b), nil, "literal-arrays"
	case 8: // string folding
		ss := []string{`"a"`, `"b"`, `""`, `"世界"`, "S", `"x y"`}
		n := 2 + r.Intn(4)
		parts := make([]string, n)
		for i := range parts {
			parts[i] = r.Pick(ss)
		}
		e := strings.Join(parts, " + ")
		forms := []string{"%s", "len(%s)", "%s == S", "%s contains \"a\"", "FnS(%s)", "%s in Strs", "(%s)[1:]", "%s matches \"^a\"", "S matches (%s)", "It.Name matches (%s)", "any(Strs, {# matches (%s)})"}
		return fmt.Sprintf(forms[r.Intn(len(forms))], e), nil, "string-fold"
	default: // mixtures with dynamic values
		forms := []string{"AnyI + 1 * 2", "AnyI in [1, 2, 3]", "AnyS in [\"a\", \"b\"]", "MA[\"a\"] in 1..3", "AnyN in [1]", "(P ? 1 : 2.5) in 1..3", "(P ? 1 : \"a\") in [1, 2]",
			"1 + 2 == AnyI", "2 * 3 in Anys", "[1, 2] == Anys", "-1 - 2 in -5..-1", "not (A in 1..3)", "A not in 1..3 and B in 2..2", "Ints[1 + 0] in 0..10", "X in 1..3 == (X >= 1 and X <= 3)"}
		return r.Pick(forms), nil, "dynamic"
	}
}

func c02Diff(c *runner.Ctx, src string, t *term.Term, class string, styles []int, seeds []uint64, tweak func(e *envs.Env)) {
	c.Begin(src)
	pOn, coOn := SafeCompile(src, expr.Env(envs.Env{}))
	pOff, coOff := SafeCompile(src, expr.Env(envs.Env{}), expr.Optimize(false))
	c.Eval(2)
	cas := func() map[string]interface{} {
		return map[string]interface{}{"source": src, "class": class, "optimized_compile": coOn.String(), "unoptimized_compile": coOff.String()}
	}
	if coOn.Panic != nil || coOff.Panic != nil {
		c.Violate("compile-panic:"+class, fmt.Sprint(coOn.Panic, coOff.Panic), cas())
		return
	}
	if coOff.Err != nil && coOn.Err != nil {
		c.Count("rejected_by_both", 1)
		return
	}
	if coOn.Err != nil && coOff.Err == nil {
		divZero := strings.Contains(coOn.Err.Error(), "integer divide by zero")
		has := false
		if t != nil {
			has = t.HasConstDivZero()
		} else {
			has = divZero && srcHasConstDivZero(src)
		}
		if divZero && has {
			c.Count("optimizer_rejected_const_div_zero", 1)
			return
		}
		c.Violate("optimizer-only-rejection:"+class+":"+errKeyOf(coOn.Err), "the optimizer rejected an expression the unoptimized compiler accepts (not a constant integer division by zero): "+firstLine(coOn.Err.Error()), cas())
		return
	}
	if coOff.Err != nil {
		c.Violate("unoptimized-only-rejection:"+class, "rejected only without the optimizer: "+firstLine(coOff.Err.Error()), cas())
		return
	}
	c.Distinct(src)
	c.Count("pairs_compiled", 1)
	c.SetAdd("classes", class)
	for i := range styles {
		e := envs.New(&envs.Log{})
		envs.Fill(e, styles[i], runner.NewRng(seeds[i]))
		if tweak != nil {
			tweak(e)
		}
		oOn := SafeRun(pOn, *e)
		oOff := SafeRun(pOff, *e)
		c.Eval(2)
		c.Count("run_pairs", 1)
		same := oOn.Failed() == oOff.Failed() && oOn.Panic == nil && oOff.Panic == nil
		if same && !oOn.Failed() {
			same = mon.Canon(oOn.Val) == mon.Canon(oOff.Val)
		}
		if same {
			if oOn.Failed() {
				c.Count("both_failed", 1)
			} else {
				c.Count("both_equal", 1)
			}
			continue
		}
		m := cas()
		m["optimized"] = oOn.String()
		m["unoptimized"] = oOff.String()
		m["env"] = envBrief(e)
		kind := "value"
		if oOn.Failed() != oOff.Failed() {
			kind = "failure"
			if oOn.Failed() {
				kind = "fails-only-optimized:" + errKeyOf(errOf(oOn))
			} else {
				kind = "fails-only-unoptimized:" + errKeyOf(errOf(oOff))
			}
		}
		c.Violate("diff:"+class+":"+kind, fmt.Sprintf("optimized %s, unoptimized %s", oOn, oOff), m)
		return
	}
}

// srcHasConstDivZero is a conservative textual test used for raw sources: a
// "/ 0" or "% 0" (optionally parenthesised zero arithmetic) appears.
func srcHasConstDivZero(src string) bool {
	return strings.Contains(src, "/ 0") || strings.Contains(src, "% 0") || strings.Contains(src, "/ (") || strings.Contains(src, "% (") || strings.Contains(src, "/ -") || strings.Contains(src, "/ +") || strings.Contains(src, "% -") || strings.Contains(src, "% +")
}

func init() {
	runner.Register(&runner.Check{
		ID:    "C02",
		Level: "exploration",
		Rule: "case = one source compiled with Optimize(true) and Optimize(false) (and with/without ConstExpr) run on 4-5 environment values; sources: rewrite-biased families (constant arithmetic to depth 6, the same as arguments of every numeric parameter kind, membership in literal arrays and literal ranges with left operands of every static type incl. dynamic values and calls, constant ranges in context, literal arrays in every position, string folding), general typed terms of 3-50 nodes, a fixed boundary corpus; " +
			"distinct = distinct sources that both compilers accept",
		Assumptions: []string{
			"results are compared with the value canon (numeric kind included, sequences element-wise)",
			"constant integer division/modulo by zero is recognised by the harness's own folder (term.FoldInt)",
		},
		Phases: []runner.Phase{
			{Name: "corpus", Serial: true, N: func(string) uint64 { return 1 }, Run: c02Corpus},
			{
				Name: "special",
				N: func(tier string) uint64 {
					if tier == "thorough" {
						return 2500000
					}
					return 60000
				},
				Run: func(c *runner.Ctx, idx uint64) {
					src, t, class := c02Special(c.R)
					styles, seeds := EnvStyles(c.R, 5)
					// put A next to small range bounds half of the time
					av := c.R.Intn(10) - 3
					xv := float64(c.R.Intn(20)-4) / 2
					tw := func(e *envs.Env) {}
					if c.R.Bool() {
						tw = func(e *envs.Env) {
							e.A, e.B, e.I = av, av+1, av-1
							e.X, e.Y, e.F64 = xv, xv+0.5, float64(av)
							e.I8, e.U8, e.I64, e.U64, e.F32 = int8(av), uint8(av+3), int64(av), uint64(av+3), float32(xv)
							e.AnyI = av
						}
					}
					c02Diff(c, src, t, class, styles, seeds, tw)
					if c.WantSample() {
						c.Sample(map[string]interface{}{"source": src, "class": class})
					}
				},
			},
			{
				Name: "general",
				N: func(tier string) uint64 {
					if tier == "thorough" {
						return 1200000
					}
					return 25000
				},
				Run: func(c *runner.Ctx, idx uint64) {
					g := term.NewGen(c.R, idx%2 == 0)
					var t *term.Term
					func() {
						defer func() {
							if r := recover(); r != nil {
								c.Inconclusive(fmt.Sprint(r))
							}
						}()
						t = g.Top(3 + c.R.Intn(48))
					}()
					if t == nil {
						return
					}
					styles, seeds := EnvStyles(c.R, 4)
					c02Diff(c, term.Print(t, term.PrintOpts{}), t, "general", styles, seeds, nil)
				},
			},
			{
				Name: "constexpr",
				N: func(tier string) uint64 {
					if tier == "thorough" {
						return 600000
					}
					return 20000
				},
				Run: c02ConstExpr,
			},
			{
				// environment members of defined types (type Level int): the
				// rewrites decide on the kind, the run-time helpers on the type
				Name: "named-types",
				N: func(tier string) uint64 {
					if tier == "thorough" {
						return 150000
					}
					return 4000
				},
				Run: c02Named,
			},
		},
		Post: func(a *runner.Aggregate) []string {
			var out []string
			if a.Counters["both_equal"] == 0 || a.Counters["constexpr_pairs"] == 0 {
				out = append(out, "no agreeing pair or no ConstExpr pair observed")
			}
			if len(a.Sets["classes"]) < 9 {
				out = append(out, "not every rewrite family produced a compiled pair")
			}
			return out
		},
	})
}

func c02Corpus(c *runner.Ctx, idx uint64) {
	srcs := []string{
		"len(1..999999)", "len(1..1000000)", "len(1..1000001)", "len(0..999999)", "len(5..4)", "len(5..5)", "len(3..-3)",
		"FnF(1/2)", "FnF(1 / 2 + 1)", "FnU8(300/2)", "FnU8(200 + 100)", "FnF(7 % 4 / 2)", "FnF(-(7 % 4) * 2)", "FnF32(1/3)", "FnI64(1 << 0 == 1 ? 1 : 2)",
		"X in 1..3", "X not in 1..3", "S in 1..3", "AnyN in 1..3", "A in 1..3", "A not in 2..5", "U8 in 1..300", "I8 in 100..200", "Inc(A) in 1..3",
		`U8 in ["a", "b"]`, `nil in ["a"]`, `X in ["a"]`, `S in ["a", "b"]`, `AnyS in ["a", "b"]`, `A in [1, 2, 3]`, `I64 in [1, 2, 3]`, `X in [1, 2, 3]`, `AnyI in [1, 2, 3]`,
		"1..3 == [1, 2, 3]", "[1, 2, 3] == [1, 2, 3]", `["a"] == ["a"]`, "Ints == [1, 2, 3]", "[1, 2] == Anys",
		"1 / 0", "1 % 0", "A > 0 ? 1 : 1 / 0", "count(Empty, {1 / 0 > #})", "1.0 / 0", "A / 0", "1 / (2 - 2)", "0 % (1 - 1)",
		"2 ** 3 ** 2", "-2 ** 2", "9223372036854775807 + 1", "-9223372036854775807 - 2", "1 - 2 - 3", "100 / 7 / 2", "7 % 4 % 2", "- - 1", "+-+1",
		`"a" + "b" + S`, `S + "a" + "b"`, "[1, 2, 3][5 * 5 - 25]",
		// inputs of the recorded findings (folded array literals change their Go
		// type; constants are not charged to the budget)
		"FnAnys([1, 2, 3])", `FnAnys(["a", "b"])`, `FnAnys([1, "a"])`, "FnAnys([A, 2])", "len([1..600000, 1..600000])",
		"len(-2..9223372036854775807)", "A in -4611686018427387904..0", "A in 1..2000000", "(9223372036854775806..-9223372036854775807)[1:3]",
		// a folded negative zero next to a positive one; folded sequences inside map values; a folded pattern that is never matched
		"[1 / 0.0, 1 / ((-2) ** -1075)]", "[0.0, (-2) ** -1075, 1 / ((-2) ** -1075)]", `{"a": 1..2} == {"a": [1, 2]}`, `{"a": [1, 2]} == {"a": [1, 2]}`, `{"k": {"a": [1, "b"]}} == {"k": {"a": [1, "b"]}}`, `[{"a": 1..2}] == [{"a": [1, 2]}]`,
		`any(map([NilIt, PIt], {#?.ID}), {# in [1, 2]})`, `map([NilIt, PIt], {#?.ID})[0] not in [7, 8]`, `all(map([NilIt], {#?.Name}), {# in ["a"]})`,
		// a left operand the checker types int only because one of its operands is dynamic
		`map([1, 2.5], {# * 2 in [2, 5]})`, `AnyF * 2 in [2, 3, 5]`, `(AnyF + 1) not in [2, 3]`, `-AnyF in [1, 2]`, `count(Anys, {# != nil and # + 1 in [2, 3]}) >= 0`, `AnyS + "a" in ["aa", "b"]`,
		`false and S matches "[" + "a"`, `false ? "x" matches "(" + "a" : false`, `true or S matches "*" + ""`,
	}
	for _, s := range srcs {
		styles, seeds := EnvStyles(runner.NewRng(c.Seed, runner.HashString(s)), 4)
		for _, av := range []int{0, 1, 2, 3, 5, 6} {
			a := av
			c02Diff(c, s, nil, "corpus:"+s, styles[:2], seeds[:2], func(e *envs.Env) {
				e.A, e.X, e.U8, e.I8 = a, float64(a)+0.5, uint8(a), int8(100+a*20)
			})
		}
	}
}

// c02ConstExpr: marking a pure function as constant expression never changes
// a result; it can only move the failure of that call to compile time.
func c02ConstExpr(c *runner.Ctx, idx uint64) {
	r := c.R
	fns := []string{"FnI", "FnII", "FnS", "FnF", "FnB", "Div", "FnAny", "FnVar", "Inc", "Cat", "FnU8", "FnInts", "MkItem", "Fast", "EqAny", "MkBox", "MkBox", "FnCel", "FnLvl", "SumF"}
	fn := r.Pick(fns)
	arg := func(kind string) string {
		switch kind {
		case "int":
			return r.Pick([]string{"1", "0", "7", "-3", "1 + 2", "A", "2 * 3", "10 / 2", "FnI(2)", "Div(4, 2)", "Div(1, 0)", "len(\"ab\")"})
		case "str":
			return r.Pick([]string{`"a"`, `""`, `"a" + "b"`, "S", `FnS("q")`, `Cat("a", "b")`})
		case "float":
			return r.Pick([]string{"1.5", "1", "2", "X", "0.5 + 1", "FnF(1.0)", "-1"})
		case "bool":
			return r.Pick([]string{"true", "false", "P", "not true", "FnB(true)", "1 < 2"})
		case "any":
			// several values print alike under %v and differ in type
			return r.Pick([]string{"1", `"a"`, "nil", "true", "1.5", "A", "[1, 2]", "FnAny(nil)", "FnAny(1)", `"1"`, "1.0", `"true"`, `"<nil>"`, `"1.5"`, "2", "2.0", `"[1 2]"`})
		case "u8":
			return r.Pick([]string{"1", "255", "200 + 50", "U8"})
		case "ints":
			return r.Pick([]string{"Ints", "[1, 2]", "1..3", "MkInts(3)"})
		}
		return "1"
	}
	var call string
	mk := func() {
		switch fn {
		case "FnI", "Inc", "MkItem":
			call = fmt.Sprintf("%s(%s)", fn, arg("int"))
		case "FnII", "Div":
			call = fmt.Sprintf("%s(%s, %s)", fn, arg("int"), arg("int"))
		case "FnS":
			call = fmt.Sprintf("FnS(%s)", arg("str"))
		case "Cat":
			call = fmt.Sprintf("Cat(%s, %s)", arg("str"), arg("str"))
		case "FnF":
			call = fmt.Sprintf("FnF(%s)", arg("float"))
		case "FnB":
			call = fmt.Sprintf("FnB(%s)", arg("bool"))
		case "FnAny":
			call = fmt.Sprintf("FnAny(%s)", arg("any"))
		case "FnU8":
			call = fmt.Sprintf("FnU8(%s)", arg("u8"))
		case "FnInts":
			call = fmt.Sprintf("FnInts(%s)", arg("ints"))
		case "FnVar":
			call = fmt.Sprintf("FnVar(%s, %s)", arg("int"), arg("int"))
		case "Fast":
			call = fmt.Sprintf("Fast(%s, %s)", arg("any"), arg("int"))
		case "EqAny":
			call = fmt.Sprintf("EqAny(%s, %s)", arg("any"), arg("any"))
		case "SumF":
			call = fmt.Sprintf("SumF(%s)", r.Pick([]string{"1, 2", "1", "", "1.5, 2", "1, 2, 3 + 4", "-1"}))
		case "FnCel":
			call = fmt.Sprintf("FnCel(%s)", r.Pick([]string{"1", "2 + 1", "-3", "7 / 2", "1.5"}))
		case "FnLvl":
			call = fmt.Sprintf("FnLvl(%s)", r.Pick([]string{"1", "2 + 1", "-3", "7 / 2"}))
		case "MkBox":
			// the constant is a struct holding slices
			call = fmt.Sprintf(r.Pick([]string{"MkBox(%s).N", "MkBox(%s).Xs[0]", "len(MkBox(%s).Xs)", "MkBox(%s).Xs", "MkBox(%s).Any"}), arg("int"))
		}
	}
	mk()
	forms := []string{"%s", "%s == %s", "[%s, %s]", "P ? %s : %s", "FnAny(%s) == FnAny(%s)", "{\"a\": %s, \"b\": %s}", "A > 100 and %s == %s"}
	f := forms[r.Intn(len(forms))]
	src := call
	if strings.Count(f, "%s") == 2 {
		// the same call twice, or two calls of the function with their own
		// arguments
		first := call
		// (MkItem's result points into the environment it was taken from: a
		// constant and a run-time result of it are not comparable)
		if r.Bool() && fn != "MkItem" {
			mk()
		}
		src = fmt.Sprintf(f, first, call)
	}
	c.Begin(src)
	// the sample environment must be populated: ConstExpr fetches the function
	sample := envs.New(&envs.Log{})
	envs.Fill(sample, 2, runner.NewRng(1))
	// a second constant-expression function now and then
	ces := []expr.Option{expr.Env(*sample), expr.ConstExpr(fn)}
	marked := []string{fn}
	if r.Chance(1, 3) {
		f2 := r.Pick(fns)
		ces = append(ces, expr.ConstExpr(f2))
		marked = append(marked, f2)
	}
	p0, co0 := SafeCompile(src, expr.Env(*sample))
	p1, co1 := SafeCompile(src, ces...)
	c.Eval(2)
	cas := map[string]interface{}{"source": src, "const_exprs": marked, "plain_compile": co0.String(), "constexpr_compile": co1.String()}
	if co0.Panic != nil || co1.Panic != nil {
		c.Violate("constexpr-compile-panic", fmt.Sprint(co0.Panic, co1.Panic), cas)
		return
	}
	if co0.Err != nil {
		return
	}
	c.Distinct("ce|" + src + "|" + strings.Join(marked, ","))
	if co1.Err != nil {
		// legitimate only if a marked call with constant arguments panics:
		// with this environment that is Div(x, 0) alone.
		if strings.Contains(src, "Div(") && strings.Contains(co1.Err.Error(), "integer divide by zero") && contains(marked, "Div") {
			c.Count("constexpr_failure_moved_to_compile_time", 1)
			return
		}
		c.Violate("constexpr-rejection:"+fn+":"+errKeyOf(co1.Err), "marking a pure function as ConstExpr made Compile fail although the call does not fail: "+firstLine(co1.Err.Error()), cas)
		return
	}
	styles, seeds := EnvStyles(r, 3)
	for i := range styles {
		e := envs.New(&envs.Log{})
		envs.Fill(e, styles[i], runner.NewRng(seeds[i]))
		o0 := SafeRun(p0, *e)
		o1 := SafeRun(p1, *e)
		c.Eval(2)
		c.Count("constexpr_pairs", 1)
		if o0.Panic != nil || o1.Panic != nil {
			c.Violate("constexpr-run-panic", fmt.Sprint(o0.Panic, o1.Panic), cas)
			return
		}
		if o1.Failed() != o0.Failed() || (!o0.Failed() && !o1.Failed() && mon.Canon(o0.Val) != mon.Canon(o1.Val)) {
			cas["plain"] = o0.String()
			cas["with_constexpr"] = o1.String()
			c.Violate("constexpr-diff:"+fn, fmt.Sprintf("plain %s, with ConstExpr %s", o0, o1), cas)
			return
		}
		if o0.Failed() && !o1.Failed() {
			// the failing call was... a plain failure that ConstExpr removes
			// would mean the call never happened: also a difference.
			cas["plain"] = o0.String()
			cas["with_constexpr"] = o1.String()
			c.Violate("constexpr-masks-failure:"+fn, fmt.Sprintf("plain %s, with ConstExpr %s", o0, o1), cas)
			return
		}
	}
	_ = vm.MemoryBudget
}

func contains(xs []string, s string) bool {
	for _, x := range xs {
		if x == s {
			return true
		}
	}
	return false
}

func c02Named(c *runner.Ctx, idx uint64) {
	r := c.R
	src := c15NamedSrc(r)
	c.Begin(src)
	pOn, coOn := SafeCompile(src, expr.Env(C15Named{}))
	pOff, coOff := SafeCompile(src, expr.Env(C15Named{}), expr.Optimize(false))
	c.Eval(2)
	cas := map[string]interface{}{"source": src, "environment": "C15Named (members of defined string/int/float/bool/slice/map types)", "optimized_compile": coOn.String(), "unoptimized_compile": coOff.String()}
	if coOn.Panic != nil || coOff.Panic != nil {
		c.Violate("compile-panic:named-types", fmt.Sprint(coOn.Panic, coOff.Panic), cas)
		return
	}
	if (coOn.Err != nil) != (coOff.Err != nil) {
		if coOn.Err != nil && strings.Contains(coOn.Err.Error(), "integer divide by zero") && srcHasConstDivZero(src) {
			return
		}
		c.Violate("compile-verdict-differs:named-types", fmt.Sprintf("optimized %s, unoptimized %s", coOn, coOff), cas)
		return
	}
	if coOn.Err != nil {
		c.Count("rejected_by_both", 1)
		return
	}
	c.Distinct("named|" + src)
	for k := 0; k < 4; k++ {
		e := C15Named{Col: C15Str(r.Pick([]string{"a", "b", "c", ""})), ID: C15Int(k), Rt: C15Float(float64(k) + []float64{0, 0.5}[r.Intn(2)]), Fl: C15Bool(r.Bool()),
			L: C15List{1, 2, 3}[:1+r.Intn(3)], D: C15Dict{"a": 1, "b": 2}, IDs: []C15Int{1, 2, 3}[:1+r.Intn(3)], Cols: []C15Str{"a", "b"}[:1+r.Intn(2)],
			ByCol: map[C15Str]int{"a": 1, "c": 3}, A: k, S: r.Pick([]string{"a", "b", "c"}), X: float64(k) + []float64{0, 0.5}[r.Intn(2)],
			Ints: []int{1, 2, 3}, Strs: []string{"a", "b"}, MI: map[string]int{"a": 1}}
		e.AnyC = []interface{}{C15Str("a"), "a", C15Str("z"), 1}[r.Intn(4)]
		e.AnyN = []interface{}{C15Int(2), 2, 2.0, C15Float(2), "a"}[r.Intn(5)]
		oOn, oOff := SafeRun(pOn, e), SafeRun(pOff, e)
		c.Eval(2)
		c.Count("run_pairs", 1)
		if oOn.Panic != nil || oOff.Panic != nil || oOn.Failed() != oOff.Failed() || (!oOn.Failed() && mon.Canon(oOn.Val) != mon.Canon(oOff.Val)) {
			cas["optimized"], cas["unoptimized"], cas["env"] = oOn.String(), oOff.String(), fmt.Sprintf("%+v", e)
			kind := "value"
			if oOn.Failed() != oOff.Failed() {
				kind = "fails-only-unoptimized"
				if oOn.Failed() {
					kind = "fails-only-optimized"
				}
			}
			c.Violate("diff:named-types:"+kind, fmt.Sprintf("optimized %s, unoptimized %s", oOn, oOff), cas)
			return
		}
		if oOn.Failed() {
			c.Count("both_failed", 1)
		} else {
			c.Count("both_equal", 1)
		}
	}
}
