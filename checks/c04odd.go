package checks

import (
	"fmt"
	"reflect"

	"github.com/antonmedv/expr"

	"verif/internal/runner"
)

// Environment *types* a user can legally write and that the checker has to
// survive: functions with no, two or three results, variadic functions without
// results, channels, complex numbers, arrays, pointers to pointers, recursive
// pointer types, non-empty interfaces, embedded pointers that are nil, maps
// with non-string keys.

type c04RecPtr *c04RecPtr // dereferencing this type never ends

type c04Loop struct {
	Next *c04Loop
	Self **c04Loop
	V    int
}

type c04Inner struct{ IV int }

// a struct that embeds a pointer to itself: legal Go, Go resolves V at depth 0
type C04SelfEmb struct {
	*C04SelfEmb
	V int
}

type C04Odd struct {
	NoRes     func(...interface{})
	NoRes1    func(int)
	TwoRes    func() (int, int)
	ErrRes    func(int) (int, error)
	ThreeRes  func() (int, int, error)
	VarInts   func(...int)
	VarMixed  func(string, ...interface{}) interface{}
	FnFn      func(func(int) int) int
	RetFn     func() func(int) int
	NilFn     func(int) int
	PanicNil  func() int // panics with a nil value
	PanicErr  func() int // panics with an error value
	Ch        chan int
	Cx        complex128
	Arr       [3]int
	ArrS      [2]string
	PP        **int
	PPP       ***string
	Rec       c04RecPtr
	Loop      *c04Loop
	Str       fmt.Stringer
	Err       error
	IntKey    map[int]string
	IfKey     map[interface{}]int
	StructKey map[c04Inner]int
	NilMap    map[string]int
	Uptr      uintptr
	U         uint
	Bytes     []byte
	Runes     []rune
	Matrix    [][]int
	Cyc       []interface{} // a slice that contains itself
	Cyc2      []interface{} // contains itself twice
	SelfPtr   interface{}   // a *interface{} pointing at itself
	CycMap    map[string]interface{}
	SelfEmb   C04SelfEmb
	*c04Inner // nil embedded pointer
}

func (C04Odd) MNoRes()              {}
func (C04Odd) MTwo() (int, string)  { return 1, "a" }
func (C04Odd) MVar(xs ...int) int   { return len(xs) }
func (*C04Odd) MPtr() int           { return 1 }
func (C04Odd) MErr() (int, error)   { return 0, fmt.Errorf("boom") }
func (C04Odd) MPanic() int          { panic("method panics") }
func (C04Odd) MIface() fmt.Stringer { return nil }

var c04OddSources = []string{
	`PanicNil()`, `PanicNil() + 1`, `[1, PanicNil()]`, `map(Arr, {PanicNil()})`, `PanicErr()`, `P ? 1 : PanicNil()`,
	`V`, `V + 1`, `C04SelfEmb`, `C04SelfEmb.V`, `A`, `A + 1`, `U`, `A in [1]`,
	`NoRes("a", 1)`, `NoRes()`, `NoRes1(1)`, `TwoRes()`, `ErrRes(1)`, `ErrRes(1) + 1`, `ThreeRes()`, `VarInts(1, 2)`, `VarInts()`, `VarMixed("a")`, `VarMixed("a", 1, nil)`, `VarMixed()`, `VarMixed(1)`,
	`FnFn(NilFn)`, `FnFn(RetFn())`, `RetFn()(1)`, `RetFn()`, `NilFn(1)`, `NilFn`, `Ch`, `Ch == nil`, `len(Ch)`, `Cx`, `Cx + 1`, `Cx == Cx`, `-Cx`, `Arr`, `Arr[0]`, `Arr[5]`, `Arr[1:2]`, `len(Arr)`, `ArrS[0] + "x"`, `1 in Arr`,
	`map(Arr, {# + 1})`, `PP`, `PP == nil`, `PP + 1`, `PPP`, `PPP + "a"`, `len(PPP)`, `Rec`, `Rec == nil`, `Rec.X`, `Rec[0]`, `len(Rec)`, `Rec + 1`, `not Rec`, `Rec ? 1 : 2`, `Rec in [1]`, `[Rec]`, `Rec()`,
	`Loop.Next.Next.V`, `Loop?.Next?.Next?.V`, `Loop.Self`, `Loop.Self.V`, `Str`, `Str.String()`, `Str == nil`, `Str + "a"`, `Err`, `Err.Error()`, `Err == nil`, `IntKey[1]`, `IntKey["a"]`, `IntKey.a`, `1 in IntKey`, `"a" in IntKey`,
	`IfKey[1]`, `IfKey["a"]`, `IfKey[nil]`, `StructKey`, `StructKey[1]`, `NilMap.a`, `NilMap["a"]`, `"a" in NilMap`, `len(NilMap)`, `Uptr + 1`, `U - 1`, `-U`, `Bytes[0]`, `Bytes + Bytes`, `Bytes == "a"`, `len(Bytes)`, `Runes[0] + 1`,
	`Matrix[0][0]`, `Matrix[0][5]`, `map(Matrix, {len(#)})`, `filter(Matrix, {#[0] > 0})`, `IV`, `c04Inner`, `c04Inner.IV`, `MNoRes()`, `MTwo()`, `MVar()`, `MVar(1, 2, 3)`, `MVar("a")`, `MPtr()`, `MErr()`, `MPanic()`, `MIface()`, `MIface().String()`,
	`MIface()?.String()`, `MNoRes`, `MVar`, `all(Arr, {# > 0})`, `count(Bytes, {# > 0})`, `Arr == [0, 0, 0]`, `Arr in [Arr]`, `{"a": Ch}`, `[NilFn, Ch, Cx]`, `Ch ?: 1`, `Cx in 1..3`, `U in 1..3`, `Uptr in [1]`,
	`Cyc2 == Cyc2`, `Cyc2 in [Cyc2]`, `[Cyc2] == [Cyc2]`, `1 in SelfPtr`, `SelfPtr[1:2]`, `SelfPtr == SelfPtr`, `len(SelfPtr)`,
	`Cyc == Cyc`, `Cyc != Cyc`, `Cyc in [Cyc]`, `[Cyc] == [Cyc]`, `Cyc[0] == Cyc`, `len(Cyc)`, `CycMap == CycMap`, `CycMap.self == CycMap`, `Cyc == Matrix`, `SelfEmb.V`, `SelfEmb.V + 1`, `SelfEmb == nil`,
}

func c04OddEnv(r *runner.Rng) interface{} {
	one := 1
	p := &one
	s := "s"
	ps := &s
	pps := &ps
	lp := &c04Loop{V: 1}
	lp.Next = lp
	lp.Self = &lp
	e := C04Odd{
		NoRes: func(...interface{}) {}, NoRes1: func(int) {}, TwoRes: func() (int, int) { return 1, 2 }, ErrRes: func(n int) (int, error) { return n, fmt.Errorf("e") },
		ThreeRes: func() (int, int, error) { return 1, 2, nil }, VarInts: func(...int) {}, VarMixed: func(string, ...interface{}) interface{} { return nil },
		PanicNil: func() int { panic(nil) }, PanicErr: func() int { panic(fmt.Errorf("boom")) },
		FnFn: func(f func(int) int) int { return f(1) }, RetFn: func() func(int) int { return func(i int) int { return i } },
		Ch: make(chan int, 1), Cx: complex(1, 2), PP: &p, PPP: &pps, Loop: lp, IntKey: map[int]string{1: "a"}, IfKey: map[interface{}]int{1: 1, "a": 2}, StructKey: map[c04Inner]int{{1}: 1},
		Bytes: []byte("ab"), Runes: []rune("ab"), Matrix: [][]int{{1}, {}},
	}
	e.Cyc = []interface{}{1, nil}
	e.Cyc[1] = e.Cyc
	e.Cyc2 = []interface{}{nil, nil}
	e.Cyc2[0], e.Cyc2[1] = e.Cyc2, e.Cyc2
	var self interface{}
	self = &self
	e.SelfPtr = self
	e.CycMap = map[string]interface{}{"k": 1}
	e.CycMap["self"] = e.CycMap
	switch r.Intn(6) {
	case 0:
		return e
	case 1:
		return &e
	case 2:
		// a struct embedding a pointer to its own type, by value and by pointer
		if r.Bool() {
			return C04SelfEmb{V: 1}
		}
		return &C04SelfEmb{V: 1}
	case 3:
		// a pointer to a map
		m := map[string]interface{}{"A": 1, "U": uint(2), "Cx": complex(1, 2), "NilFn": e.NilFn, "Arr": e.Arr, "Cyc": e.Cyc}
		return &m
	case 4:
		m := map[string]int{"A": 1, "U": 2}
		return &m
	default:
		m := map[string]interface{}{}
		v := reflect.ValueOf(e)
		for i := 0; i < v.NumField(); i++ {
			if f := v.Type().Field(i); f.PkgPath == "" && !f.Anonymous {
				m[f.Name] = v.Field(i).Interface()
			}
		}
		return m
	}
}

// c04Odd: Compile against the odd environment type (struct, pointer, map form)
// with a drawn option subset, then Run and Eval; nothing may panic or kill the
// process.
func c04Odd(c *runner.Ctx, idx uint64) {
	r := c.R
	src := c04OddSources[idx%uint64(len(c04OddSources))]
	if idx >= uint64(len(c04OddSources)) {
		// two sources combined
		a, b := r.Pick(c04OddSources), r.Pick(c04OddSources)
		src = fmt.Sprintf(r.Pick([]string{"%s == %s", "[%s, %s]", "P ? %s : %s", "%s ?: %s", "%s in [%s]", "(%s) + (%s)", "FnAny(%s) == %s", "map([%s], {# == %s})"}), a, b)
	}
	c.Begin("odd-env: " + src)
	env := c04OddEnv(r)
	form := fmt.Sprintf("%T", env)
	c.SetAdd("odd_env_forms", form)
	cas := map[string]interface{}{"source": src, "environment": form}
	var optSets [][]expr.Option
	optSets = append(optSets, []expr.Option{expr.Env(env)}, []expr.Option{expr.Env(env), expr.Optimize(false)}, []expr.Option{expr.Env(env), expr.AllowUndefinedVariables()}, nil)
	if r.Bool() {
		optSets = append(optSets, []expr.Option{expr.Env(env), expr.AsBool()}, []expr.Option{expr.Env(env), expr.Operator("+", "VarMixed", "TwoRes")}, []expr.Option{expr.Env(env), expr.ConstExpr("RetFn"), expr.ConstExpr("NoRes1")})
	}
	for oi, opts := range optSets {
		p, co := SafeCompile(src, opts...)
		c.Eval(1)
		c.Count("odd_env_compiles", 1)
		if co.Panic != nil {
			cas["options"] = oi
			c.Violate(c04Sig("Compile", co.Panic), fmt.Sprintf("expr.Compile panicked on an odd environment type: %v", co.Panic), cas)
			return
		}
		if (co.Err != nil) == (p != nil) {
			c.Violate("Compile-error-xor-program", "Compile returned both or neither of error and program", cas)
		}
		if p == nil {
			continue
		}
		c.Distinct(src + "|" + form + "|" + fmt.Sprint(oi))
		o := SafeRun(p, env)
		c.Eval(1)
		if o.Panic != nil {
			c.Violate(c04Sig("Run", o.Panic), fmt.Sprintf("expr.Run panicked on an odd environment: %v", o.Panic), cas)
			return
		}
		if o.Err != nil && o.Val != nil {
			c.Violate("Run-error-with-value", "Run returned an error and a value", cas)
		}
		if o.Err == nil && (src == "PanicNil()" || src == "PanicNil() + 1" || src == "[1, PanicNil()]" || src == "PanicErr()") {
			c.Violate("Run-no-error-after-panic-in-environment-function", fmt.Sprintf("the environment function panicked and Run returned %s without an error", o), cas)
		}
	}
	o := SafeEval(src, env)
	c.Eval(1)
	if o.Panic != nil {
		c.Violate(c04Sig("Eval", o.Panic), fmt.Sprintf("expr.Eval panicked on an odd environment: %v", o.Panic), cas)
	}
}
