package checks

import (
	"fmt"
	"reflect"
	"strings"

	"github.com/antonmedv/expr"

	"verif/internal/envs"
	"verif/internal/mon"
	"verif/internal/runner"
	"verif/internal/term"
)

// C18: collection builtins satisfy their defining identities (metamorphic).

func mustT(t *term.Term, err error) *term.Term {
	if err != nil {
		panic("HARNESS-BUG c18: " + err.Error())
	}
	return t
}

type c18Pair struct {
	name     string
	lhs, rhs *term.Term
}

func c18Run(c *runner.Ctx, src string, opt bool, e *envs.Env) Outcome {
	p, co := SafeCompile(src, expr.Env(envs.Env{}), expr.Optimize(opt))
	c.Eval(1)
	if co.Failed() {
		return co
	}
	o := SafeRun(p, *e)
	c.Eval(1)
	return o
}

func c18Compare(c *runner.Ctx, pr c18Pair, styles []int, seeds []uint64, tweak func(*envs.Env)) {
	ls, rs := term.Print(pr.lhs, term.PrintOpts{}), term.Print(pr.rhs, term.PrintOpts{})
	c.Begin(pr.name + ": " + ls + "  ~  " + rs)
	c.Distinct(pr.name + "|" + ls)
	c.SetAdd("identities", pr.name)
	for _, opt := range []bool{true, false} {
		for i := range styles {
			e := envs.New(&envs.Log{})
			envs.Fill(e, styles[i], runner.NewRng(seeds[i]))
			if tweak != nil {
				tweak(e)
			}
			ol := c18Run(c, ls, opt, e)
			or := c18Run(c, rs, opt, e)
			c.Count("identity_instances", 1)
			cas := map[string]interface{}{"identity": pr.name, "lhs": ls, "rhs": rs, "optimize": opt, "lhs_result": ol.String(), "rhs_result": or.String(), "env": envBrief(e)}
			if ol.Panic != nil || or.Panic != nil {
				c.Violate("panic:"+pr.name, fmt.Sprint(ol.Panic, or.Panic), cas)
				return
			}
			if ol.Failed() != or.Failed() {
				c.Violate("one-side-fails:"+pr.name, fmt.Sprintf("lhs %s, rhs %s", ol, or), cas)
				return
			}
			if ol.Failed() {
				c.Count("both_sides_fail", 1)
				continue
			}
			if mon.Canon(ol.Val) != mon.Canon(or.Val) {
				c.Violate("identity-broken:"+pr.name, fmt.Sprintf("lhs %s, rhs %s", ol, or), cas)
				return
			}
			c.Count("both_sides_equal", 1)
			// as one boolean expression
			if i == 0 {
				one := "(" + ls + ") == (" + rs + ")"
				oo := c18Run(c, one, opt, e)
				if oo.Panic != nil {
					c.Violate("panic:"+pr.name, fmt.Sprint(oo.Panic), cas)
					return
				}
				if !oo.Failed() {
					if b, ok := oo.Val.(bool); !ok || !b {
						cas["single_expression"] = one
						cas["single_result"] = oo.String()
						c.Violate("identity-as-one-expression:"+pr.name, "both sides agree separately but their == is "+oo.String(), cas)
						return
					}
					c.Count("single_expression_true", 1)
				}
			}
		}
	}
	if c.WantSample() {
		c.Sample(map[string]interface{}{"identity": pr.name, "lhs": ls, "rhs": rs})
	}
}

func init() {
	runner.Register(&runner.Check{
		ID:    "C18",
		Level: "exploration",
		Rule: "case = one identity instance (array expression, predicate/mapper, environment, optimizer setting): all/any, none/any, one/count, count/len(filter), len(map)/len, filter kept elements vs per-element predicate results, map(xs,{#}) = xs, nested closures to depth 4 over collections with disjoint value ranges (incl. collections computed from the enclosing #), integer range membership vs two-sided comparison, slice partition for sequences and strings; arrays are typed fields, literals, ranges and results of other builtins; predicates come from the typed generator (incl. nested builtins); both sides compiled separately and as one == expression; " +
			"distinct = distinct (identity, left-hand side source)",
		Assumptions: []string{"identities tie builtins to each other; absolute correctness of a builtin is C01's subject", "for identities whose two sides evaluate different element sets the closures are restricted to non-failing constructs"},
		Phases: []runner.Phase{
			{Name: "identities", N: func(tier string) uint64 {
				if tier == "thorough" {
					return 700000
				}
				return 20000
			}, Run: c18Identities},
			{Name: "nesting", N: func(tier string) uint64 {
				if tier == "thorough" {
					return 300000
				}
				return 8000
			}, Run: c18Nesting},
		},
		Post: func(a *runner.Aggregate) []string {
			var out []string
			if len(a.Sets["identities"]) < 11 {
				out = append(out, fmt.Sprintf("only %d identities were exercised", len(a.Sets["identities"])))
			}
			if a.Counters["both_sides_equal"] == 0 || a.Counters["both_sides_fail"] == 0 || a.Counters["nesting_instances"] == 0 {
				out = append(out, "no agreeing, failing or nesting instance observed")
			}
			return out
		},
	})
}

func c18Identities(c *runner.Ctx, idx uint64) {
	r := c.R
	g := term.NewGen(r, false)
	defer func() {
		if rec := recover(); rec != nil {
			c.Inconclusive(fmt.Sprint(rec))
		}
	}()
	sc := g.Sc
	cts := []reflect.Type{term.IntsT, term.IntsT, term.StrsT, term.FloatsT, term.ItemsT, term.PItemsT, term.ArrT}
	ct := cts[r.Intn(len(cts))]
	styles, seeds := EnvStyles(r, 4)
	kind := idx % 12
	pure := kind == 4 || kind == 5 || kind == 6
	g.PureOnly = pure
	if pure && ct == term.PItemsT {
		ct = term.ItemsT
	}
	var xs *term.Term
	if ct == term.ArrT {
		// literal array of ints (so predicates over int elements apply)
		n := r.Intn(6)
		var el []*term.Term
		for i := 0; i < n; i++ {
			el = append(el, g.Of(term.IntT, 1+r.Intn(4)))
		}
		xs = term.Array(el...)
	} else {
		xs = g.Of(ct, 1+r.Intn(8))
	}
	et := mustT2(term.ElemOf(&term.Scope{Env: envs.EnvType, AllowAny: true}, xs))
	inner := &term.Scope{Env: envs.EnvType, AllowAny: et.Kind() == reflect.Interface, Elems: []reflect.Type{et}}
	gi := &term.Gen{R: r, Sc: inner, AllowAny: inner.AllowAny, PureOnly: pure}
	var p *term.Term
	if et.Kind() == reflect.Interface {
		// elements of a literal array are ints at run time
		hash := mustT(term.Pointer(inner))
		p = mustT(term.Binary(inner, r.Pick([]string{">", "<", "==", "!="}), hash, term.Int(r.Intn(6))))
		if !pure && r.Chance(1, 4) {
			p = mustT(term.Binary(inner, "==", mustT(term.Binary(inner, "/", term.Int(12), hash)), term.Int(r.Intn(5))))
		}
	} else {
		p = gi.Of(term.BoolT, 2+r.Intn(10))
	}
	bsc := &term.Scope{Env: envs.EnvType, AllowAny: true}
	b2 := func(op string, body *term.Term) *term.Term { return mustT(term.Builtin2(bsc, op, xs, body)) }
	not := func(x *term.Term) *term.Term { return mustT(term.Unary(bsc, "not", x)) }
	notIn := func(x *term.Term) *term.Term { return mustT(term.Unary(inner, "not", x)) }
	switch kind {
	case 0:
		c18Compare(c, c18Pair{"all=not-any-not", b2("all", p), not(b2("any", notIn(p)))}, styles, seeds, nil)
	case 1:
		c18Compare(c, c18Pair{"none=not-any", b2("none", p), not(b2("any", p))}, styles, seeds, nil)
	case 2:
		c18Compare(c, c18Pair{"one=count-is-1", b2("one", p), mustT(term.Binary(bsc, "==", b2("count", p), term.Int(1)))}, styles, seeds, nil)
	case 3:
		c18Compare(c, c18Pair{"count=len-filter", b2("count", p), mustT(term.Len(bsc, b2("filter", p)))}, styles, seeds, nil)
	case 4:
		var f *term.Term
		if et.Kind() == reflect.Interface {
			f = mustT(term.Pointer(inner))
		} else {
			f = gi.Of([]reflect.Type{term.IntT, term.StrT, term.BoolT, term.FloatT}[r.Intn(4)], 1+r.Intn(8))
		}
		c18Compare(c, c18Pair{"len-map=len", mustT(term.Len(bsc, b2("map", f))), mustT(term.Len(bsc, xs))}, styles, seeds, nil)
	case 5:
		c18Compare(c, c18Pair{"map-identity", b2("map", mustT(term.Pointer(inner))), xs}, styles, seeds, nil)
	case 6:
		c18Filter(c, xs, p, b2("filter", p), b2("map", p), styles, seeds)
	case 7:
		// any = not all not
		c18Compare(c, c18Pair{"any=not-all-not", b2("any", p), not(b2("all", notIn(p)))}, styles, seeds, nil)
	case 8:
		// membership in an integer range equals the two-sided comparison
		x := g.Of(term.IntT, 1+r.Intn(5))
		// bounds must not fail (the two-sided form short-circuits)
		gs := &term.Gen{R: r, Sc: sc, SmallInts: true, NoCalls: true, PureOnly: true}
		a, b := gs.Of(term.IntT, 1+r.Intn(3)), gs.Of(term.IntT, 1+r.Intn(3))
		if r.Bool() {
			a, b = term.Int(r.Intn(5)), term.Int(r.Intn(8))
		}
		// x must not contain calls (evaluated twice on the right) nor fail
		gx := &term.Gen{R: r, Sc: sc, NoCalls: true, PureOnly: true}
		x = gx.Of(term.IntT, 1+r.Intn(5))
		in := mustT(term.Binary(sc, "in", x, mustT(term.Binary(sc, "..", a, b))))
		cmp := mustT(term.Binary(sc, "and", mustT(term.Binary(sc, ">=", x, a)), mustT(term.Binary(sc, "<=", x, b))))
		av := r.Intn(10) - 2
		c18Compare(c, c18Pair{"in-range=two-sided", in, cmp}, styles, seeds, func(e *envs.Env) {
			e.A, e.B, e.C, e.I = av, av+2, av-1, av+1
			e.It.ID, e.PIt.ID = av+3, av-2 // keep run-time ranges small: membership builds the range
		})
	case 9:
		// slicing at i partitions a sequence
		seq := g.Of([]reflect.Type{term.IntsT, term.StrsT, term.ItemsT, term.FloatsT}[r.Intn(4)], 1+r.Intn(6))
		i := term.Int(r.Intn(7))
		left := mustT(term.Slice(sc, seq, nil, i))
		right := mustT(term.Slice(sc, seq, i, nil))
		sum := mustT(term.Binary(sc, "+", mustT(term.Len(sc, left)), mustT(term.Len(sc, right))))
		c18Compare(c, c18Pair{"slice-partition-len", sum, mustT(term.Len(sc, seq))}, styles, seeds, nil)
		c18Concat(c, seq, left, right, styles, seeds)
		if r.Chance(1, 4) {
			// a Go array held by the environment (the typed terms know slices only)
			a, k := r.Pick([]string{"Arr3", "ArrS", "It.Vals", "[Arr3, Arr3][0]"}), r.Intn(5)
			c18ConcatSrc(c, a, fmt.Sprintf("%s[:%d]", a, k), fmt.Sprintf("%s[%d:]", a, k), styles[:2], seeds[:2])
			c.Count("go_array_partitions", 1)
		}
	case 10:
		s := (&term.Gen{R: r, Sc: sc, PureOnly: true}).Of(term.StrT, 1+r.Intn(6))
		i := term.Int(r.Intn(9))
		cat := mustT(term.Binary(sc, "+", mustT(term.Slice(sc, s, nil, i)), mustT(term.Slice(sc, s, i, nil))))
		c18Compare(c, c18Pair{"string-slice-partition", cat, s}, styles, seeds, nil)
	case 11:
		// not in = not (in)
		x := (&term.Gen{R: r, Sc: sc, NoCalls: true}).Of(term.IntT, 1+r.Intn(4))
		rng := mustT(term.Binary(sc, "..", term.Int(r.Intn(4)), term.Int(2+r.Intn(6))))
		av := r.Intn(10) - 1
		c18Compare(c, c18Pair{"not-in=not(in)", mustT(term.Binary(sc, "not in", x, rng)), not(mustT(term.Binary(sc, "in", x, rng)))}, styles, seeds,
			func(e *envs.Env) { e.A, e.B, e.C, e.I = av, av+1, av-1, av })
	}
}

func mustT2(t reflect.Type, err error) reflect.Type {
	if err != nil {
		panic("HARNESS-BUG c18: " + err.Error())
	}
	return t
}

// c18Filter: filter keeps exactly the satisfying elements in order, judged in
// the harness against xs and the per-element predicate results map(xs, p).
func c18Filter(c *runner.Ctx, xs, p, filt, mapped *term.Term, styles []int, seeds []uint64) {
	fs, ms, xsrc := term.Print(filt, term.PrintOpts{}), term.Print(mapped, term.PrintOpts{}), term.Print(xs, term.PrintOpts{})
	c.Begin("filter-elements: " + fs)
	c.Distinct("filter-elements|" + fs)
	c.SetAdd("identities", "filter-elements")
	for _, opt := range []bool{true, false} {
		for i := range styles {
			e := envs.New(&envs.Log{})
			envs.Fill(e, styles[i], runner.NewRng(seeds[i]))
			of, om, ox := c18Run(c, fs, opt, e), c18Run(c, ms, opt, e), c18Run(c, xsrc, opt, e)
			c.Count("identity_instances", 1)
			cas := map[string]interface{}{"identity": "filter-elements", "filter": fs, "predicates": ms, "optimize": opt, "filter_result": of.String(), "predicate_results": om.String(), "array": ox.String()}
			if of.Panic != nil || om.Panic != nil || ox.Panic != nil {
				c.Violate("panic:filter-elements", fmt.Sprint(of.Panic, om.Panic, ox.Panic), cas)
				return
			}
			if of.Failed() || om.Failed() || ox.Failed() {
				if of.Failed() != om.Failed() {
					c.Violate("one-side-fails:filter-elements", fmt.Sprintf("filter %s, map of predicates %s", of, om), cas)
					return
				}
				c.Count("both_sides_fail", 1)
				continue
			}
			xv, mv, fv := reflect.ValueOf(ox.Val), reflect.ValueOf(om.Val), reflect.ValueOf(of.Val)
			if xv.Kind() != reflect.Slice || mv.Kind() != reflect.Slice || fv.Kind() != reflect.Slice || xv.Len() != mv.Len() {
				c.Violate("identity-broken:filter-elements", "results are not sequences of matching length", cas)
				return
			}
			var want []string
			for k := 0; k < xv.Len(); k++ {
				if b, ok := mv.Index(k).Interface().(bool); ok && b {
					want = append(want, mon.Canon(xv.Index(k).Interface()))
				}
			}
			var got []string
			for k := 0; k < fv.Len(); k++ {
				got = append(got, mon.Canon(fv.Index(k).Interface()))
			}
			if strings.Join(want, ",") != strings.Join(got, ",") {
				cas["want_elements"] = want
				c.Violate("identity-broken:filter-elements", "filter did not keep exactly the satisfying elements in order", cas)
				return
			}
			c.Count("both_sides_equal", 1)
		}
	}
}

// c18Concat: xs[:i] ++ xs[i:] == xs (harness-side concatenation).
func c18Concat(c *runner.Ctx, seq, left, right *term.Term, styles []int, seeds []uint64) {
	c18ConcatSrc(c, term.Print(seq, term.PrintOpts{}), term.Print(left, term.PrintOpts{}), term.Print(right, term.PrintOpts{}), styles, seeds)
}

func c18ConcatSrc(c *runner.Ctx, ss, ls, rs string, styles []int, seeds []uint64) {
	c.SetAdd("identities", "slice-partition-concat")
	for i := range styles {
		e := envs.New(&envs.Log{})
		envs.Fill(e, styles[i], runner.NewRng(seeds[i]))
		os, ol, or := c18Run(c, ss, true, e), c18Run(c, ls, true, e), c18Run(c, rs, true, e)
		c.Count("identity_instances", 1)
		if os.Failed() || ol.Failed() || or.Failed() {
			if !(os.Failed() && ol.Failed() && or.Failed()) && os.Panic == nil {
				// the sequence itself may fail; slices of it then fail as well
				if os.Failed() != ol.Failed() || os.Failed() != or.Failed() {
					c.Violate("one-side-fails:slice-partition-concat", fmt.Sprintf("xs %s, xs[:i] %s, xs[i:] %s", os, ol, or), map[string]interface{}{"xs": ss, "left": ls, "right": rs})
					return
				}
			}
			continue
		}
		lv, rv, sv := reflect.ValueOf(ol.Val), reflect.ValueOf(or.Val), reflect.ValueOf(os.Val)
		if lv.Kind() != reflect.Slice || rv.Kind() != reflect.Slice || (sv.Kind() != reflect.Slice && sv.Kind() != reflect.Array) {
			continue
		}
		var cat []string
		for k := 0; k < lv.Len(); k++ {
			cat = append(cat, mon.Canon(lv.Index(k).Interface()))
		}
		for k := 0; k < rv.Len(); k++ {
			cat = append(cat, mon.Canon(rv.Index(k).Interface()))
		}
		var all []string
		for k := 0; k < sv.Len(); k++ {
			all = append(all, mon.Canon(sv.Index(k).Interface()))
		}
		if strings.Join(cat, ",") != strings.Join(all, ",") {
			c.Violate("identity-broken:slice-partition-concat", "xs[:i] ++ xs[i:] differs from xs", map[string]interface{}{"xs": ss, "left": ls, "right": rs, "xs_result": os.String(), "left_result": ol.String(), "right_result": or.String()})
			return
		}
		c.Count("both_sides_equal", 1)
	}
}

// c18Nesting: a closure nested to any depth sees the element of its own
// innermost collection. Collections have disjoint value ranges per depth (or
// are computed from the enclosing #), and the expected value is computed by the
// harness with plain Go loops.
func c18Nesting(c *runner.Ctx, idx uint64) {
	r := c.R
	depth := 1 + r.Intn(4)
	type level struct {
		lo, n     int
		fromOuter bool // collection is 1..# of the enclosing element
		op        string
		post      bool // use # again after the nested builtin
	}
	var lv []level
	for k := 0; k < depth; k++ {
		l := level{lo: (k+1)*100 + 1, n: r.Intn(4), op: r.Pick([]string{"map", "map", "count", "filter", "all", "any", "none", "one"}), post: r.Bool()}
		if k > 0 && r.Chance(1, 3) {
			l.fromOuter = true
		}
		lv = append(lv, l)
	}
	// innermost levels may be any builtin; outer levels are map (to keep
	// the structure observable) except now and then
	for k := 0; k < depth-1; k++ {
		if r.Chance(3, 4) {
			lv[k].op = "map"
		}
	}
	// source
	var build func(k int) string
	build = func(k int) string {
		l := lv[k]
		coll := fmt.Sprintf("%d..%d", l.lo, l.lo+l.n-1)
		if l.fromOuter {
			coll = "1..(# % 4)"
		}
		var body string
		if k == depth-1 {
			switch l.op {
			case "map":
				body = "# * 2"
			default:
				body = "# % 2 == 0"
			}
		} else {
			inner := build(k + 1)
			switch l.op {
			case "map":
				if l.post {
					body = fmt.Sprintf("[#, %s, #]", inner)
				} else {
					body = fmt.Sprintf("[#, %s]", inner)
				}
			default:
				// predicate mixing the own element with the nested result
				nested := inner
				if lv[k+1].op == "map" || lv[k+1].op == "filter" {
					nested = "len(" + inner + ") >= 0"
				} else if lv[k+1].op == "count" {
					nested = inner + " >= 0"
				}
				if l.post {
					body = fmt.Sprintf("(%s or true) and # %% 2 == 0", nested)
				} else {
					body = fmt.Sprintf("# %% 2 == 0 and (%s or true)", nested)
				}
			}
		}
		return fmt.Sprintf("%s(%s, {%s})", l.op, coll, body)
	}
	src := build(0)
	// expected, by plain loops
	var eval func(k int, outer int) interface{}
	eval = func(k int, outer int) interface{} {
		l := lv[k]
		var elems []int
		if l.fromOuter {
			m := outer % 4
			for v := 1; v <= m; v++ {
				elems = append(elems, v)
			}
		} else {
			for v := l.lo; v < l.lo+l.n; v++ {
				elems = append(elems, v)
			}
		}
		pred := func(v int) bool { return v%2 == 0 }
		switch l.op {
		case "map":
			out := []interface{}{}
			for _, v := range elems {
				if k == depth-1 {
					out = append(out, v*2)
				} else if l.post {
					out = append(out, []interface{}{v, eval(k+1, v), v})
				} else {
					out = append(out, []interface{}{v, eval(k+1, v)})
				}
			}
			return out
		case "filter":
			out := []interface{}{}
			for _, v := range elems {
				if pred(v) {
					out = append(out, v)
				}
			}
			return out
		case "count":
			n := 0
			for _, v := range elems {
				if pred(v) {
					n++
				}
			}
			return n
		case "all":
			for _, v := range elems {
				if !pred(v) {
					return false
				}
			}
			return true
		case "any":
			for _, v := range elems {
				if pred(v) {
					return true
				}
			}
			return false
		case "none":
			for _, v := range elems {
				if pred(v) {
					return false
				}
			}
			return true
		case "one":
			n := 0
			for _, v := range elems {
				if pred(v) {
					n++
				}
			}
			return n == 1
		}
		return nil
	}
	want := eval(0, 0)
	c.Begin(src)
	c.Distinct("nest|" + src)
	c.SetAdd("identities", "nested-closure-element")
	e := envs.New(&envs.Log{})
	envs.Fill(e, 3, runner.NewRng(r.U64()))
	for _, opt := range []bool{true, false} {
		o := c18Run(c, src, opt, e)
		c.Count("nesting_instances", 1)
		c.Count(fmt.Sprintf("nesting_depth_%d", depth), 1)
		if o.Failed() || mon.Canon(o.Val) != mon.Canon(want) {
			c.Violate(fmt.Sprintf("nested-closure:depth%d", depth), fmt.Sprintf("got %s want %s", o, mon.Short(want)), map[string]interface{}{"source": src, "optimize": opt, "want": mon.Short(want), "got": o.String()})
			return
		}
	}
	if c.WantSample() {
		c.Sample(map[string]interface{}{"source": src, "depth": depth})
	}
}
