package checks

import (
	"fmt"
	"math"
	"strconv"
	"strings"
	"unicode/utf8"

	"github.com/antonmedv/expr/ast"
	"github.com/antonmedv/expr/file"
	"github.com/antonmedv/expr/parser"
	"github.com/antonmedv/expr/parser/lexer"

	"verif/internal/runner"
)

// C12: literals and token positions are lexed faithfully.
// Round trip with the harness's spelling generator as the model.

func safeParse(src string) (tree *parser.Tree, o Outcome) {
	defer func() {
		if r := recover(); r != nil {
			o.Panic = r
			tree = nil
		}
	}()
	runner.LibEnter()
	defer runner.LibLeave()
	tree, o.Err = parser.Parse(src)
	return
}

func safeLex(src string) (toks []lexer.Token, o Outcome) {
	defer func() {
		if r := recover(); r != nil {
			o.Panic = r
		}
	}()
	runner.LibEnter()
	defer runner.LibLeave()
	toks, o.Err = lexer.Lex(file.NewSource(src))
	return
}

// spellString writes value as a quoted literal, each rune raw or escaped.
func spellString(r *runner.Rng, value string, mode int) string {
	quote := byte('"')
	if r.Bool() {
		quote = '\''
	}
	var sb strings.Builder
	sb.WriteByte(quote)
	for _, ru := range value {
		mustEscape := ru == rune(quote) || ru == '\\' || ru == '\n' || ru == '\r'
		esc := mustEscape || mode == 2 || (mode == 1 && r.Chance(1, 3))
		if !esc {
			sb.WriteRune(ru)
			continue
		}
		named := map[rune]string{'\a': `\a`, '\b': `\b`, '\f': `\f`, '\n': `\n`, '\r': `\r`, '\t': `\t`, '\v': `\v`, '\\': `\\`}
		if ru == rune(quote) {
			sb.WriteByte('\\')
			sb.WriteByte(quote)
			continue
		}
		if s, ok := named[ru]; ok && (r.Chance(2, 3) || ru == '\\') {
			sb.WriteString(s)
			continue
		}
		switch {
		case ru < 0x80:
			switch r.Intn(4) {
			case 0:
				fmt.Fprintf(&sb, `\x%02x`, ru)
			case 1:
				fmt.Fprintf(&sb, `\x%02X`, ru)
			case 2:
				fmt.Fprintf(&sb, `\%03o`, ru)
			default:
				fmt.Fprintf(&sb, `\u%04x`, ru)
			}
		case ru < 0x10000:
			if r.Bool() {
				fmt.Fprintf(&sb, `\u%04x`, ru)
			} else {
				fmt.Fprintf(&sb, `\U%08X`, ru)
			}
		default:
			fmt.Fprintf(&sb, `\U%08x`, ru)
		}
	}
	sb.WriteByte(quote)
	return sb.String()
}

func randomString(r *runner.Rng) string {
	n := r.Intn(12)
	var sb strings.Builder
	for i := 0; i < n; i++ {
		switch r.Intn(10) {
		case 0:
			sb.WriteRune(rune(r.Intn(0x20))) // control
		case 1:
			sb.WriteString([]string{`"`, `'`, `\`, "\n", "\r", "\t", "\x00", "\x7f", "`", "?"}[r.Intn(10)])
		case 2:
			sb.WriteRune(rune(0x80 + r.Intn(0x80))) // Latin-1 / C1
		case 3:
			ru := rune(0x100 + r.Intn(0xFF00))
			if ru >= 0xD800 && ru <= 0xDFFF {
				ru = 0x4e16
			}
			sb.WriteRune(ru)
		case 4:
			sb.WriteRune(rune(0x10000 + r.Intn(0x100000)))
		default:
			sb.WriteByte(byte(0x20 + r.Intn(0x5f)))
		}
	}
	return sb.String()
}

func c12String(c *runner.Ctx, value, src string) {
	tree, o := safeParse(src)
	c.Eval(1)
	cas := map[string]interface{}{"literal": src, "value_quoted": strconv.QuoteToASCII(value)}
	if o.Panic != nil {
		c.Violate("string-panic", fmt.Sprint(o.Panic), cas)
		return
	}
	if o.Err != nil {
		c.Violate("string-rejected:"+errKeyOf(o.Err), "valid string literal rejected: "+firstLine(o.Err.Error()), cas)
		return
	}
	sn, ok := tree.Node.(*ast.StringNode)
	if !ok {
		c.Violate("string-not-a-string", fmt.Sprintf("literal parsed to %T", tree.Node), cas)
		return
	}
	if sn.Value != value {
		cas["got_quoted"] = strconv.QuoteToASCII(sn.Value)
		c.Violate("string-value", fmt.Sprintf("string literal came back as %s, want %s", strconv.QuoteToASCII(sn.Value), strconv.QuoteToASCII(value)), cas)
		return
	}
	c.Count("strings_ok", 1)
}

func underscore(r *runner.Rng, digits string) string {
	if len(digits) < 2 {
		return digits
	}
	var sb strings.Builder
	for i := 0; i < len(digits); i++ {
		sb.WriteByte(digits[i])
		if i+1 < len(digits) && r.Chance(1, 3) {
			sb.WriteByte('_')
		}
	}
	return sb.String()
}

func c12Int(c *runner.Ctx, v uint64, spelling string) {
	tree, o := safeParse(spelling)
	c.Eval(1)
	cas := map[string]interface{}{"literal": spelling, "value": v}
	kind := "dec"
	if strings.ContainsAny(spelling, "xX") {
		kind = "hex"
	}
	if o.Panic != nil {
		c.Violate("int-panic", fmt.Sprint(o.Panic), cas)
		return
	}
	if o.Err != nil {
		c.Violate("int-rejected:"+kind+":"+errKeyOf(o.Err), "valid integer literal rejected: "+firstLine(o.Err.Error()), cas)
		return
	}
	in, ok := tree.Node.(*ast.IntegerNode)
	if !ok {
		c.Violate("int-wrong-node:"+kind, fmt.Sprintf("integer literal parsed to %T", tree.Node), cas)
		return
	}
	if uint64(in.Value) != v || in.Value < 0 {
		c.Violate("int-value:"+kind, fmt.Sprintf("integer literal %s came back as %d", spelling, in.Value), cas)
		return
	}
	c.Count("ints_ok", 1)
}

func c12Float(c *runner.Ctx, f float64, spelling string) {
	tree, o := safeParse(spelling)
	c.Eval(1)
	cas := map[string]interface{}{"literal": clip(spelling, 400), "bits": fmt.Sprintf("%#x", math.Float64bits(f))}
	if o.Panic != nil {
		c.Violate("float-panic", fmt.Sprint(o.Panic), cas)
		return
	}
	if o.Err != nil {
		c.Violate("float-rejected:"+errKeyOf(o.Err), "valid float literal rejected: "+firstLine(o.Err.Error()), cas)
		return
	}
	fn, ok := tree.Node.(*ast.FloatNode)
	if !ok {
		c.Violate("float-wrong-node", fmt.Sprintf("float literal parsed to %T", tree.Node), cas)
		return
	}
	if math.Float64bits(fn.Value) != math.Float64bits(f) {
		c.Violate("float-value", fmt.Sprintf("float literal came back as %v (bits %#x)", fn.Value, math.Float64bits(fn.Value)), cas)
		return
	}
	c.Count("floats_ok", 1)
}

func floatSpellings(r *runner.Rng, f float64) []string {
	var out []string
	for _, fm := range []byte{'f', 'e', 'E', 'g', 'G'} {
		s := strconv.FormatFloat(f, fm, -1, 64)
		if !strings.ContainsAny(s, ".eE") {
			s += ".0"
		}
		out = append(out, s)
		if strings.Contains(s, "e+") || strings.Contains(s, "E+") {
			out = append(out, strings.Replace(strings.Replace(s, "e+", "e", 1), "E+", "E", 1))
		}
		if strings.HasPrefix(s, "0.") {
			out = append(out, s[1:])
		}
	}
	return out
}

var c12Tokens = []string{"index", "in_var", "inStock", "input", "notes", "a", "foo", "Bar_1", "$x", "héllo", "世界", "x1", "1", "42", "3.14", "0x1F", "1e3", ".5", "10_000",
	`"s"`, `'t'`, `"世 界"`, `"a\tb"`, `'q\'q'`,
	"+", "-", "*", "/", "%", "**", "==", "!=", "<", "<=", ">", ">=", "&&", "||", "!", "and", "or", "in", "matches", "contains", "startsWith", "endsWith", "..", "?", ":", ",", "#", ".", "?.",
	"(", ")", "[", "]", "{", "}", "not", "true", "nil", "len", "not in"}

var c12Spaces = []string{" ", "  ", "\t", "\n", "\r\n", " \n ", "\n\n", "\t \t", "\u00a0", "\u2003 ", "\v", "\f", "\r"}

func init() {
	runner.Register(&runner.Check{
		ID:    "C12",
		Level: "exploration",
		Rule: "case = one literal spelling or one laid-out token sequence; strings: every rune U+0000..U+FFFF (minus surrogates) and sampled non-BMP runes, raw and escaped, plus random strings with mixed raw/escaped runes in both quotes; integers: boundary and random values 0..2^63-1 in decimal, underscore, leading-zero and hex (both cases) spellings; floats: boundary and random finite values in f/e/E/g/G formattings, leading-dot and unsigned-exponent forms; positions: 2-25 tokens separated by random whitespace incl. tabs, CRLF, multi-byte spaces; " +
			"distinct = distinct source texts",
		Assumptions: []string{
			"raw CR and LF inside string literals are excluded (the lexer normalises CR and rejects LF by design); \\x80-\\xff and octal >= \\200 escapes are excluded (their byte/rune meaning is not settled)",
			"EOF token position and lexer error positions are pinned by the repository's tests and not judged",
			"a token's column counts runes since the last LF, so a CR before LF counts as a column",
		},
		Phases: []runner.Phase{
			{
				Name: "runes",
				N:    func(string) uint64 { return 0x10000/16 + 256 },
				Run: func(c *runner.Ctx, idx uint64) {
					var runes []rune
					if idx < 0x10000/16 {
						for k := 0; k < 16; k++ {
							runes = append(runes, rune(idx*16+uint64(k)))
						}
					} else {
						for k := 0; k < 16; k++ {
							runes = append(runes, rune(0x10000+c.R.Intn(0x100000)))
						}
					}
					for _, ru := range runes {
						if ru >= 0xD800 && ru <= 0xDFFF {
							continue
						}
						v := "a" + string(ru) + "b"
						if idx < 4 {
							c.Begin(fmt.Sprintf("rune %U", ru))
						}
						for mode := 0; mode < 3; mode++ {
							src := spellString(c.R, v, mode)
							c.Distinct(src)
							c12String(c, v, src)
						}
					}
					if idx == 8 {
						c.Sample(map[string]interface{}{"value": "a\u0080b", "spellings": []string{"\"a\u0080b\"", `'a\u0080b'`}})
					}
				},
			},
			{
				Name: "strings",
				N: func(tier string) uint64 {
					if tier == "thorough" {
						return 6000000
					}
					return 150000
				},
				Run: func(c *runner.Ctx, idx uint64) {
					if idx == 0 {
						// recorded finding: a carriage return written raw inside a
						// literal is accepted and comes back as a line feed (the
						// random spellings below always escape CR, as they must LF)
						for _, q := range []string{`"`, `'`} {
							for _, v := range []string{"a\rb", "\r", "x\r\ry"} {
								src := q + v + q
								c.Begin(strconv.Quote(src))
								tree, o := safeParse(src)
								c.Eval(1)
								if o.Failed() {
									c.Count("raw_cr_rejected", 1)
									continue
								}
								if sn, ok := tree.Node.(*ast.StringNode); ok && sn.Value != v {
									c.Violate("string-value:raw-carriage-return-becomes-line-feed", fmt.Sprintf("literal %s came back as %s", strconv.Quote(src), strconv.Quote(sn.Value)),
										map[string]interface{}{"literal": src, "value_quoted": strconv.Quote(v), "got_quoted": strconv.Quote(sn.Value)})
								}
							}
						}
					}
					v := randomString(c.R)
					src := spellString(c.R, v, int(idx%3))
					if idx < 64 {
						c.Begin(src)
					}
					c.Distinct(src)
					c12String(c, v, src)
					if c.WantSample() {
						c.Sample(map[string]interface{}{"literal": src, "value": strconv.QuoteToASCII(v)})
					}
				},
			},
			{
				Name: "ints",
				N: func(tier string) uint64 {
					if tier == "thorough" {
						return 3000000
					}
					return 100000
				},
				Run: func(c *runner.Ctx, idx uint64) {
					r := c.R
					bounds := []uint64{0, 1, 9, 10, 14, 15, 16, 30, 0xe, 0x1e, 0xfe, 0xbeef, 0xdead, 0xface, 0xabcdef, 1<<31 - 1, 1 << 31, 1<<31 + 1, 1<<53 - 1, 1 << 53, 1<<53 + 1, 1<<63 - 1, 1<<63 - 2, 1 << 62, 255, 256, 65535, 65536, 1e18}
					var v uint64
					if idx < uint64(len(bounds)) {
						v = bounds[idx]
					} else {
						v = r.U64() >> uint(1+r.Intn(63))
					}
					dec := strconv.FormatUint(v, 10)
					hexl := strconv.FormatUint(v, 16)
					hexu := strings.ToUpper(hexl)
					sp := []string{dec, underscore(r, dec), "0" + dec, "00" + dec,
						"0x" + hexl, "0x" + hexu, "0X" + hexl, "0X" + hexu, "0x" + underscore(r, hexl), "0x0" + hexu}
					// mixed-case hex digits
					var mixed strings.Builder
					for i := 0; i < len(hexl); i++ {
						if r.Bool() {
							mixed.WriteByte(hexu[i])
						} else {
							mixed.WriteByte(hexl[i])
						}
					}
					sp = append(sp, "0x"+mixed.String())
					for _, s := range sp {
						if idx < 64 {
							c.Begin(s)
						}
						c.Distinct(s)
						c12Int(c, v, s)
					}
					if c.WantSample() {
						c.Sample(map[string]interface{}{"value": v, "spellings": sp})
					}
				},
			},
			{
				Name: "floats",
				N: func(tier string) uint64 {
					if tier == "thorough" {
						return 3000000
					}
					return 80000
				},
				Run: func(c *runner.Ctx, idx uint64) {
					r := c.R
					bounds := []float64{0, 1, 0.5, 0.1, 0.2, 0.3, 1.5, 2.5, 1e21, 1e22, 1e23, 123456789.125, math.MaxFloat64, math.SmallestNonzeroFloat64, 2.2250738585072014e-308, 2.2250738585072009e-308,
						1 << 53, 1<<53 + 2, 9007199254740993, 4.35, 0.000001, 1e-7, 100, 1e6, 3.4028234663852886e38, 1.7976931348623157e308, 5e-324, 0.30000000000000004}
					var f float64
					if idx < uint64(len(bounds)) {
						f = bounds[idx]
					} else if r.Bool() {
						f = math.Abs(r.FiniteFloatBits())
					} else {
						f = float64(r.Intn(1000000)) / float64(1+r.Intn(1000))
					}
					for _, s := range floatSpellings(r, f) {
						if idx < 64 {
							c.Begin(s)
						}
						c.Distinct(s)
						c12Float(c, f, s)
					}
					if c.WantSample() {
						c.Sample(map[string]interface{}{"bits": fmt.Sprintf("%#x", math.Float64bits(f)), "spellings": floatSpellings(r, f)[:3]})
					}
				},
			},
			{
				Name: "positions",
				N: func(tier string) uint64 {
					if tier == "thorough" {
						return 3000000
					}
					return 80000
				},
				Run: func(c *runner.Ctx, idx uint64) {
					r := c.R
					n := 2 + r.Intn(24)
					var sb strings.Builder
					type tk struct {
						text      string
						line, col int
					}
					var want []tk
					line, col := 1, 0
					emit := func(s string) {
						for _, ru := range s {
							if ru == '\n' {
								line++
								col = 0
							} else {
								col++
							}
						}
						sb.WriteString(s)
					}
					if r.Chance(1, 3) {
						emit(c12Spaces[r.Intn(len(c12Spaces))])
					}
					prev := ""
					for i := 0; i < n; i++ {
						t := c12Tokens[r.Intn(len(c12Tokens))]
						if prev == "not" && t == "in" {
							t = "or"
						}
						want = append(want, tk{t, line, col})
						emit(t)
						prev = t
						sp := c12Spaces[r.Intn(len(c12Spaces))]
						if r.Chance(1, 4) {
							sp += c12Spaces[r.Intn(len(c12Spaces))]
						}
						emit(sp)
					}
					src := sb.String()
					if idx < 64 {
						c.Begin(src)
					}
					toks, o := safeLex(src)
					c.Eval(1)
					c.Distinct(src)
					cas := map[string]interface{}{"source_quoted": strconv.QuoteToASCII(src)}
					if o.Panic != nil {
						c.Violate("lex-panic", fmt.Sprint(o.Panic), cas)
						return
					}
					if o.Err != nil {
						c.Violate("lex-rejected:"+errKeyOf(o.Err), "token sequence rejected by the lexer: "+firstLine(o.Err.Error()), cas)
						return
					}
					if len(toks) != len(want)+1 {
						c.Violate("token-count", fmt.Sprintf("lexer produced %d tokens (+EOF), laid out %d", len(toks)-1, len(want)), cas)
						return
					}
					for i, w := range want {
						g := toks[i]
						if g.Line != w.line || g.Column != w.col {
							cas["token"] = w.text
							cas["token_index"] = i
							ws := "lf"
							if strings.Contains(src, "\r") {
								ws = "cr"
							}
							multi := "ascii"
							if utf8.RuneCountInString(src) != len(src) {
								multi = "multibyte"
							}
							c.Violate(fmt.Sprintf("token-position:%s:%s", ws, multi), fmt.Sprintf("token %q reported at (%d,%d), its first character is at (%d,%d)", w.text, g.Line, g.Column, w.line, w.col), cas)
							return
						}
					}
					c.Count("tokens_positioned", int64(len(want)))
					if c.WantSample() {
						c.Sample(map[string]interface{}{"source_quoted": strconv.QuoteToASCII(src), "tokens": len(want)})
					}
				},
			},
		},
		Post: func(a *runner.Aggregate) []string {
			var out []string
			for _, k := range []string{"strings_ok", "ints_ok", "floats_ok", "tokens_positioned"} {
				if a.Counters[k] == 0 {
					out = append(out, "nothing observed for "+k)
				}
			}
			return out
		},
	})
}
