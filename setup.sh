#!/bin/bash
# Builds the harness once, offline, from files on disk only.
set -e
cd "$(dirname "$0")"
export GOFLAGS=-mod=mod GOPROXY=off GOSUMDB=off GOTOOLCHAIN=local
mkdir -p bin evidence replays .work
go build -tags verif -o bin/vcheck ./cmd/vcheck
go build -race -tags verif -o bin/vcheck-race ./cmd/vcheck
echo setup ok
